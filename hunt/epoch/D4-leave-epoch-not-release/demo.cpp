// Demonstration for ThreadSanitizer (no library instrumentation): Epoch::LeaveEpoch() is a
// RELAXED store and CollectProtectedEpochs() reads entered_ with a RELAXED load, so nothing
// a worker does while its guard is alive happens-before the coordinator's reclamation that
// follows the un-pinning.  Even the library's own protected-epoch list is affected: the
// worker's reads of the vector returned by GetProtectedEpochs() (made strictly while the
// guard was alive) race with `delete current` in RemoveOutDatedLists().
//
// The demo orders the steps in real time with a RELAXED flag only (which adds no
// happens-before edge), so every synchronisation would have to come from the library.

#include <atomic>
#include <cstdio>
#include <thread>
#include <vector>

#include "dbgroup/thread/epoch_manager.hpp"

using dbgroup::thread::EpochManager;

namespace
{
std::atomic<int> sync_flag{0};     // used with acquire/release (warm-up phase only)
std::atomic<int> relaxed_flag{0};  // used with relaxed only

__attribute__((noinline)) auto
ReadListUnderGuard(const std::vector<size_t> &list) -> size_t
{
  size_t sum = 0;
  for (const auto e : list) sum += e;  // plain reads of the list while the guard is alive
  return sum;
}
}  // namespace

auto
main() -> int
{
  EpochManager mgr{};
  size_t sum = 0;
  size_t pinned = 0;

  std::thread worker{[&] {
    {
      // warm-up: register this thread's heartbeat while the coordinator is idle
      [[maybe_unused]] const auto g = mgr.CreateEpochGuard();
    }
    sync_flag.store(1, std::memory_order_release);
    while (sync_flag.load(std::memory_order_acquire) != 2) std::this_thread::yield();

    {
      const auto &[guard, list] = mgr.GetProtectedEpochs();  // epoch 600, list lives in node N512
      pinned = guard.GetProtectedEpoch();
      sum = ReadListUnderGuard(list);
    }  // ~EpochGuard -> LeaveEpoch(): entered_.store(max, relaxed)
    relaxed_flag.store(1, std::memory_order_relaxed);
    // stay alive (heartbeat not expired), so that the coordinator really scans this thread's entered_
    while (sync_flag.load(std::memory_order_acquire) != 3) std::this_thread::yield();
  }};

  while (sync_flag.load(std::memory_order_acquire) != 1) std::this_thread::yield();
  while (mgr.GetCurrentEpoch() < 600) mgr.ForwardGlobalEpoch();
  sync_flag.store(2, std::memory_order_release);

  while (relaxed_flag.load(std::memory_order_relaxed) != 1) std::this_thread::yield();
  // the worker's guard is gone (in real time).  769: node N512 (with the list the worker read) is deleted
  while (mgr.GetCurrentEpoch() < 770) mgr.ForwardGlobalEpoch();

  sync_flag.store(3, std::memory_order_release);
  worker.join();
  std::printf("worker pinned %zu, sum %zu, current epoch %zu\n", pinned, sum, mgr.GetCurrentEpoch());
  return 0;
}
