// Shared harness infrastructure: explicit programs, replay files, scenario registry.
#ifndef SCENARIOS_COMMON_HPP_
#define SCENARIOS_COMMON_HPP_

#include <cstdint>
#include <cstdio>
#include <cstring>
#include <string>
#include <vector>

#include "dsim.hpp"

namespace sim
{

struct Op {
  int kind = 0;
  int obj = 0;
  int64_t a = 0, b = 0, c = 0;
};

struct Program {
  std::string scenario;
  int family = 0;
  int profile = 0;
  std::vector<int64_t> params;
  std::vector<std::vector<Op>> threads;

  uint64_t hash() const
  {
    uint64_t h = dsim::mix64(static_cast<uint64_t>(family) * 131 + static_cast<uint64_t>(profile), scenario.size());
    for (char ch : scenario) h = dsim::mix64(h, static_cast<uint64_t>(ch));
    for (auto p : params) h = dsim::mix64(h, static_cast<uint64_t>(p));
    for (auto &t : threads) {
      h = dsim::mix64(h, 0x7777);
      for (auto &o : t) {
        h = dsim::mix64(h, (static_cast<uint64_t>(o.kind) << 32) ^ static_cast<uint64_t>(o.obj));
        h = dsim::mix64(h, static_cast<uint64_t>(o.a));
        h = dsim::mix64(h, static_cast<uint64_t>(o.b));
        h = dsim::mix64(h, static_cast<uint64_t>(o.c));
      }
    }
    return h;
  }
  size_t total_ops() const
  {
    size_t n = 0;
    for (auto &t : threads) n += t.size();
    return n;
  }
};

// what a scenario module provides
struct Scenario {
  const char *name;
  // fills prog and may adjust cfg (strategy mix, fault rates, spin bound) from the two PRNG streams
  void (*generate)(Program &prog, dsim::Config &cfg, dsim::Rng &prog_rng, dsim::Rng &cfg_rng, int family, int profile);
  // body of vthread 0; reads the program through current_program()
  void (*entry)(void *);
  std::string (*render)(const Program &prog);
  // property tags ("[C02]") for classes raised by the runtime itself (deadlock, heap/..., crash/...)
  std::string (*tags_for_runtime_class)(const Program &prog, const char *cls);
  // human readable names of the reach probes of this scenario (index = probe id), nullptr terminated
  const char *const *probe_names;
  // called once per process before any run of this scenario (may be nullptr)
  void (*process_init)();
  // optional: reference data for the oracle, computed by real code in a COLD forked child before the run (so that hidden
  // process-global state of the code under test can neither leak from the reference computation into the run nor the other way);
  // scenarios that set it are always executed one run per freshly forked child
  void (*reference)(const Program &prog, std::vector<int64_t> &out) = nullptr;
};

const std::vector<int64_t> &reference_data();

const Program &current_program();
const Scenario *find_scenario(const std::string &name);
// phase marker used by scenarios for classification of runtime-detected failures
void set_phase(const char *phase);
const char *phase();
// 0 = quick tier program sizes, 1 = thorough tier (some programs are larger: more threads, more operations)
int scale();

extern const Scenario kLocksScenario;
extern const Scenario kIdmScenario;
extern const Scenario kEpochScenario;
extern const Scenario kZipfScenario;
extern const Scenario kLitmusScenario;

}  // namespace sim

#endif  // SCENARIOS_COMMON_HPP_
