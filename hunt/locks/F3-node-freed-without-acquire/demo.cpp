// F3: the "last holder" of an MCS queue group recycles the group's node
// (tls_node_.reset(qnode)) after a RELEASE-only RMW.  Earlier members of the
// group read that node (qnode->lock_.load() in UnlockS / LockS) and announce
// their departure with a release RMW, but the last holder never ACQUIRES those
// departures, so their reads of the node do not happen-before its later
// re-initialisation or deallocation.
//
// Threads A, B, C; locks L1, L2.  f*_rel flags use release/acquire (harness
// edges that deliberately order A's accesses before C, so that the only
// unordered pair left is B's read vs C's delete); f*_rlx flags are relaxed and
// add no happens-before.
//
//  1. A: L1.LockS()        leader, node N                         [S=1,N]
//  2. B: L1.LockS()        joins                                  [S=2,N]
//  3. C: L1.LockS()        joins                                  [S=3,N]
//  4. A: ~SGuard           reads N, CAS -> [S=2,N]
//  5. B: ~SGuard           reads N (mcs_lock.cpp:174), CAS(release) -> [S=1,N]
//  6. C: ~SGuard           reads N, CAS(kRelease only) -> 0 ; tls_node_ = N   (last holder)
//  7. A: L2.LockS()        leader, node M
//  8. C: L2.LockS()        joins (N goes back into C's tls_node_)
//  9. A: ~SGuard
// 10. C: ~SGuard           last holder: tls_node_.reset(M)  => delete N
//                          -> unordered with B's atomic read of N in step 5
#include <atomic>
#include <chrono>
#include <cstdio>
#include <thread>

#include "dbgroup/lock/mcs_lock.hpp"

using dbgroup::lock::MCSLock;
static constexpr auto rlx = std::memory_order_relaxed;
static constexpr auto rel = std::memory_order_release;
static constexpr auto acq = std::memory_order_acquire;

static MCSLock L1, L2;
static std::atomic<int> started{0};
static std::atomic<int> a1{0}, b1{0}, c1{0}, a2{0}, b2{0}, c2{0}, a3{0}, c3{0}, a4{0};

static void
wait_for(std::atomic<int> &f, std::memory_order mo)
{
  while (f.load(mo) == 0) std::this_thread::yield();
}

int
main()
{
  std::thread A([] {
    started.fetch_add(1, rlx);
    while (started.load(rlx) < 3) std::this_thread::yield();
    {
      auto g = L1.LockS();  // 1
      a1.store(1, rel);
      wait_for(b1, rlx);
      wait_for(c1, rlx);
    }  // 4
    a2.store(1, rel);
    wait_for(c2, rlx);
    {
      auto g = L2.LockS();  // 7
      a3.store(1, rel);
      wait_for(c3, rlx);
    }  // 9
    a4.store(1, rel);
  });
  std::thread B([] {
    started.fetch_add(1, rlx);
    wait_for(a1, acq);  // (orders A's construction of N before B: keeps defect F1 out of the picture)
    {
      auto g = L1.LockS();  // 2
      b1.store(1, rlx);
      wait_for(a2, rlx);
    }  // 5: the read of N that is not ordered before the delete in step 10
    b2.store(1, rlx);
  });
  std::thread C([] {
    started.fetch_add(1, rlx);
    wait_for(a1, acq);
    {
      auto g = L1.LockS();  // 3
      c1.store(1, rlx);
      wait_for(a2, acq);
      wait_for(b2, rlx);  // relaxed: learns that B is gone, but does not synchronise
    }  // 6
    c2.store(1, rlx);
    wait_for(a3, acq);
    {
      auto g = L2.LockS();  // 8
      c3.store(1, rlx);
      wait_for(a4, acq);
    }  // 10: deletes N
  });
  A.join();
  B.join();
  C.join();
  std::printf("done\n");
  return 0;
}
