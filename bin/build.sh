#!/bin/bash
# Build the simulation binaries for the CURRENT working tree of /repo into a content-addressed cache.
# usage: build.sh <variant> [<variant> ...]   variant = N<max threads>R<retry num>[H0], e.g. N4R10; H0 = built without
#        CPP_UTILITY_HAS_SPINLOCK_HINT (what cmake selects when x86intrin.h is missing)
# prints the path of each built binary on stdout.
set -euo pipefail
VERIF="$(cd "$(dirname "$0")/.." && pwd)"
REPO="${VERIF_REPO:-/repo}"
CACHE="$VERIF/build"
mkdir -p "$CACHE"
CXX="${CXX:-g++}"
BASE_FLAGS="-std=c++20 -O1 -g -fno-omit-frame-pointer"
SRCS="lock/pessimistic_lock lock/optimistic_lock lock/mcs_lock random/zipf thread/id_manager thread/epoch_manager thread/epoch_guard thread/component/epoch"

# hash of everything that influences the binaries
tree_hash() {
  (
    cd "$REPO" && find include src -type f \( -name '*.hpp' -o -name '*.cpp' -o -name '*.h' \) -print0 | sort -z | xargs -0 sha256sum
    cd "$VERIF" && sha256sum dsim/dsim.cpp dsim/dsim.hpp scenarios/*.cpp scenarios/*.hpp bin/build.sh
    $CXX --version | head -1
    echo "$BASE_FLAGS"
  ) | sha256sum | cut -c1-20
}
H="$(tree_hash)"
DIR="$CACHE/$H"
mkdir -p "$DIR"

build_variant() {
  local V="$1"
  local N="${V#N}"; N="${N%%R*}"
  local R="${V##*R}"
  local HINT="-DCPP_UTILITY_HAS_SPINLOCK_HINT"
  if [[ "$R" == *H0 ]]; then R="${R%H0}"; HINT=""; fi
  local OUT="$DIR/sim-$V"
  if [ -x "$OUT" ]; then echo "$OUT"; return 0; fi
  (
    flock 9
    if [ -x "$OUT" ]; then exit 0; fi
    local O="$DIR/obj-$V"
    mkdir -p "$O"
    local DEFS="-DDBGROUP_MAX_THREAD_NUM=$N -DCPP_UTILITY_SPINLOCK_RETRY_NUM=$R -DCPP_UTILITY_BACKOFF_TIME=10 $HINT -DCPP_UTILITY_VERIF"
    local INC="-I$VERIF/dsim -I$VERIF/scenarios -I$REPO/include"
    local pids=()
    local fail=0
    for s in $SRCS; do
      $CXX $BASE_FLAGS -fsanitize=thread $DEFS $INC -c "$REPO/src/$s.cpp" -o "$O/repo_$(echo $s | tr / _).o" 2>"$O/repo_$(echo $s | tr / _).log" &
      pids+=($!)
    done
    for s in locks idm epoch zipf litmus; do
      $CXX $BASE_FLAGS -fsanitize=thread $DEFS $INC -c "$VERIF/scenarios/$s.cpp" -o "$O/scn_$s.o" 2>"$O/scn_$s.log" &
      pids+=($!)
    done
    $CXX $BASE_FLAGS -O2 $DEFS $INC -c "$VERIF/scenarios/main.cpp" -o "$O/main.o" 2>"$O/main.log" &
    pids+=($!)
    $CXX $BASE_FLAGS -O2 $INC -c "$VERIF/dsim/dsim.cpp" -o "$O/dsim.o" 2>"$O/dsim.log" &
    pids+=($!)
    for p in "${pids[@]}"; do wait "$p" || fail=1; done
    if [ "$fail" != 0 ]; then
      echo "build.sh: compilation failed for $V:" >&2
      grep -h -E "error|Error" "$O"/*.log | head -30 >&2 || true
      exit 1
    fi
    $CXX -no-pie "$O"/*.o -o "$OUT.tmp" -lpthread
    mv "$OUT.tmp" "$OUT"
    rm -rf "$O"
  ) 9>"$DIR/lock-$V"
  [ -x "$OUT" ] || return 1
  echo "$OUT"
}

rc=0
for V in "$@"; do
  build_variant "$V" || rc=1
done
# keep the cache small: drop trees other than the current one that are older than three hours
find "$CACHE" -mindepth 1 -maxdepth 1 -type d ! -name "$H" -mmin +180 -exec rm -rf {} + 2>/dev/null || true
exit $rc
