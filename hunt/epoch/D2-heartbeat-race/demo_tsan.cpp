// Hook-free stress test for ThreadSanitizer: short-lived worker threads create guards
// (first use in each thread registers the heartbeat in tls_fields_[id]) while one
// coordinator calls ForwardGlobalEpoch().  TSan reports the data race between
//   write: EpochManager::CreateEpochGuard()        tls.heartbeat = IDManager::GetHeartBeat()
//   read : EpochManager::CollectProtectedEpochs()  tls.heartbeat.expired()
#include <atomic>
#include <cstdio>
#include <thread>
#include <vector>

#include "dbgroup/thread/epoch_manager.hpp"

auto
main() -> int
{
  dbgroup::thread::EpochManager mgr{};
  std::atomic_bool running{true};
  std::thread coordinator{[&] {
    while (running.load(std::memory_order_relaxed)) mgr.ForwardGlobalEpoch();
  }};
  for (size_t round = 0; round < 200; ++round) {
    std::vector<std::thread> workers{};
    for (size_t i = 0; i < 4; ++i) {
      workers.emplace_back([&] {
        for (size_t j = 0; j < 10; ++j) {
          [[maybe_unused]] const auto guard = mgr.CreateEpochGuard();
        }
      });
    }
    for (auto &&t : workers) t.join();
  }
  running = false;
  coordinator.join();
  return 0;
}
