#!/bin/sh
# exits non-zero iff ThreadSanitizer reports the race (exit code 66)
set -e
HERE=$(cd "$(dirname "$0")" && pwd)
ROOT=$(cd "$HERE/../.." && pwd)
B=${BUILD_DIR:-$(mktemp -d /tmp/mut/H3-build-XXXXXX)}
mkdir -p "$B"
g++ -std=c++20 -O1 -g -fsanitize=thread -I"$ROOT/include" -DDBGROUP_MAX_THREAD_NUM=1 -DCPP_UTILITY_SPINLOCK_RETRY_NUM=10 \
  -DCPP_UTILITY_BACKOFF_TIME=10 -DCPP_UTILITY_HAS_SPINLOCK_HINT "$HERE/demo.cpp" "$ROOT"/src/thread/*.cpp \
  "$ROOT"/src/thread/component/*.cpp -o "$B/idm_handoff" -lpthread
set +e
TSAN_OPTIONS="exitcode=66 halt_on_error=0" "$B/idm_handoff"
rc=$?
[ -z "$BUILD_DIR" ] && rm -rf "$B"
exit $rc
