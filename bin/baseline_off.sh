#!/bin/bash
# Build /repo's current working tree WITHOUT the verification guard and run the repository's own test suite;
# the set of passing tests must contain BASELINE.json's stable list.  Scratch directory is removed afterwards.
set -uo pipefail
REPO="${VERIF_REPO:-/repo}"
SCRATCH="$(mktemp -d /var/tmp/cpp-utility-baseline.XXXXXX)"
trap 'rm -rf "$SCRATCH"' EXIT
cmake -G Ninja -S "$REPO" -B "$SCRATCH/b" -DCMAKE_BUILD_TYPE=RelWithDebInfo -DCPP_UTILITY_BUILD_TESTS=ON \
  -DFETCHCONTENT_SOURCE_DIR_GOOGLETEST=/usr/src/googletest -DFETCHCONTENT_FULLY_DISCONNECTED=ON \
  -DDBGROUP_MAX_THREAD_NUM="(2 * 8)" >"$SCRATCH/configure.log" 2>&1 || { cat "$SCRATCH/configure.log"; echo "BASELINE-OFF: configure failed"; exit 1; }
cmake --build "$SCRATCH/b" -j 16 >"$SCRATCH/build.log" 2>&1 || { tail -50 "$SCRATCH/build.log"; echo "BASELINE-OFF: build failed"; exit 1; }
if grep -rq "CPP_UTILITY_VERIF" "$SCRATCH/b/build.ninja"; then echo "BASELINE-OFF: guard unexpectedly defined"; exit 1; fi
ctest --test-dir "$SCRATCH/b" -j8 --timeout 900 --output-junit "$SCRATCH/junit.xml" >"$SCRATCH/ctest.log" 2>&1
rc=$?
tail -15 "$SCRATCH/ctest.log"
python3 - "$SCRATCH" <<'PY'
import json, sys, glob, subprocess, os, re
scratch = sys.argv[1]
base = json.load(open('/root/.vp/BASELINE.json'))
stable = set(base.get('stable_pass', []))
# collect per-test results from the gtest binaries themselves (ctest only knows the 8 executables)
passed, failed = set(), set()
for exe in sorted(glob.glob(os.path.join(scratch, 'b', 'test', '*', '*_test'))):
    out = os.path.join(scratch, os.path.basename(exe) + '.json')
    try:
        subprocess.run([exe, '--gtest_output=json:' + out], stdout=subprocess.DEVNULL, stderr=subprocess.DEVNULL, timeout=900)
    except subprocess.TimeoutExpired:
        failed.add(os.path.basename(exe) + '::TIMEOUT')
        continue
    if not os.path.exists(out):
        failed.add(os.path.basename(exe) + '::NO-OUTPUT')
        continue
    d = json.load(open(out))
    for suite in d.get('testsuites', []):
        for t in suite.get('testsuite', []):
            name = suite['name'] + '::' + t['name']
            (failed if t.get('failures') else passed).add(name)
missing = sorted(n for n in stable if n not in passed and '::' in n and not n.endswith('_test'))
print('BASELINE-OFF: %d gtest cases passed, %d failed; %d of %d stable baseline tests missing from the passed set' % (len(passed), len(failed), len(missing), len(stable)))
for n in missing[:20]: print('  missing:', n)
for n in sorted(failed)[:20]: print('  failed:', n)
sys.exit(1 if (missing or failed) else 0)
PY
prc=$?
if [ $rc -ne 0 ] || [ $prc -ne 0 ]; then echo "BASELINE-OFF: FAIL (ctest rc=$rc, compare rc=$prc)"; exit 1; fi
echo "BASELINE-OFF: OK"
