#!/bin/bash
# Supplementary evidence for F1: runs the UNMODIFIED src/lock/mcs_lock.cpp under a
# deterministic scheduler in which a memory_order_relaxed store may become visible
# late (it is only forced out by a later release/acq_rel/seq_cst operation of the
# same thread or by a later access of the same thread to the same location) -
# behaviour the C++ memory model, ARM, POWER and RISC-V allow.
# The library is compiled with -fsanitize=thread only to route its atomic
# operations through the __tsan_atomic* entry points that weak_sim.cpp defines;
# libtsan is not linked.  Exits non-zero iff a lost hand-off (deadlock) is found.
cd "$(dirname "$0")"
ROOT=${ROOT:-/tmp/mut/H1}
B=${BUILD:-/tmp/mut/H1-build/F1sim}
mkdir -p "$B"
g++ -std=c++20 -O1 -g -fsanitize=thread -I$ROOT/include -DCPP_UTILITY_SPINLOCK_RETRY_NUM=1 -DCPP_UTILITY_BACKOFF_TIME=0 \
  -c $ROOT/src/lock/mcs_lock.cpp -o $B/mcs_tsan.o || exit 2
g++ -std=c++20 -O1 -g -fno-access-control -I$ROOT/include weak_sim.cpp $B/mcs_tsan.o -o $B/weak_sim || exit 2
rc=0
echo "--- sequentially consistent schedules (control): X|X and S|X"
$B/weak_sim fixed "X|X" 1 5000 0 | tail -1
$B/weak_sim fixed "S|X" 1 5000 0 | tail -1
echo "--- schedules with delayed relaxed stores: two threads, LockX | LockX"
$B/weak_sim fixed "X|X" 1 5000 1 > $B/xx.txt; r=$?; head -40 $B/xx.txt; [ $r -ne 0 ] && rc=1
echo "--- schedules with delayed relaxed stores: two threads, LockS | LockX"
$B/weak_sim fixed "S|X" 1 5000 1 > $B/sx.txt; r=$?; head -40 $B/sx.txt; [ $r -ne 0 ] && rc=1
exit $rc
