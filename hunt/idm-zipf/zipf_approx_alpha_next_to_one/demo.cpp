// C18: for n >= 1000 and 0 <= alpha <= 3 the approximate CDF must stay within 0.01 of the exact one.
// For alpha within a few ulp of 1 (but != 1) GetHarmonicNum suffers catastrophic cancellation.
// Such an alpha is what one gets from the innocent loop "for (a = 0; a <= 3; a += 0.1)":
// 0.1 added ten times is 0.99999999999999989, not 1.0.
#include <cmath>
#include <cstdint>
#include <cstdio>
#include <vector>

#include "dbgroup/random/zipf.hpp"

using dbgroup::random::ApproxZipfDistribution;
using dbgroup::random::ZipfDistribution;

static auto
Check(const uint64_t n, const double alpha) -> bool
{
  const ApproxZipfDistribution<uint64_t> approx{0, n - 1, alpha};
  const ZipfDistribution<uint64_t> exact{0, n - 1, alpha};
  double worst = 0;
  uint64_t worst_k = 0;
  size_t decreasing = 0;
  for (uint64_t k = 0; k < n; ++k) {
    const auto err = std::fabs(approx.GetCDF(k) - exact.GetCDF(k));
    if (err > worst) {
      worst = err;
      worst_k = k;
    }
    if (k > 0 && approx.GetCDF(k) < approx.GetCDF(k - 1)) ++decreasing;
  }
  std::printf("n=%7llu alpha=%.17g: max |approx-exact| = %.4f at bin %llu (approx %.4f, exact %.4f), decreasing steps: %zu %s\n",
              (unsigned long long)n, alpha, worst, (unsigned long long)worst_k, approx.GetCDF(worst_k),
              exact.GetCDF(worst_k), decreasing, worst > 0.01 ? "<-- VIOLATION" : "");
  return worst > 0.01;
}

int
main()
{
  double grid_alpha = 0.0;
  for (int i = 0; i < 10; ++i) grid_alpha += 0.1;  // the 11th point of the grid 0, 0.1, 0.2, ...
  std::printf("0.1 added ten times = %.17g (== 1.0? %s)\n", grid_alpha, grid_alpha == 1.0 ? "yes" : "no");

  bool violated = false;
  std::printf("control:\n");
  (void)Check(1000, 1.0);
  (void)Check(1000, 0.99);
  (void)Check(1000, 1.01);
  std::printf("alpha next to 1:\n");
  for (uint64_t n : {1000ULL, 10000ULL, 100000ULL}) {
    violated |= Check(n, grid_alpha);
    violated |= Check(n, std::nextafter(1.0, 2.0));
    violated |= Check(n, 1.0 - 1e-15);
  }
  return violated ? 1 : 0;
}
