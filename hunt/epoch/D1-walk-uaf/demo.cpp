// Demonstration: EpochManager::GetProtectedEpochs() walks the ProtectedNode list
// without any protection against the coordinator's RemoveOutDatedLists().
// A worker that is stalled inside GetProtectedEpochs() (after its guard has been
// created, while it holds a pointer to a list node NEWER than the node of its own
// epoch) dereferences a node that ForwardGlobalEpoch() has deleted meanwhile.
//
// The interleaving is forced with two observation-only hooks (see run.sh):
//   site 0: in EpochManager::GetProtectedEpochs(), after the guard was created and
//           before the member protected_lists_ is read,
//   site 1: in ProtectedNode::GetProtectedEpochs(), before each `node->upper_epoch_` read.
// The hooks change no library state; they only block the calling worker thread.
//
// In addition the demo replaces the global aligned operator new/delete to learn which
// ProtectedNode objects have been deleted (it can be built with and without ASan).

#include <atomic>
#include <cstdio>
#include <cstdlib>
#include <new>
#include <thread>
#include <vector>

#include "dbgroup/thread/epoch_manager.hpp"

using dbgroup::thread::EpochManager;

namespace
{
std::atomic<int> stage{0};  // 0: idle, 1: worker pinned (site 0), 2: go on, 3: worker at node (site 1), 4: go on
std::atomic<bool> worker_armed{false};
thread_local bool is_worker = false;
const void *held_node = nullptr;

constexpr size_t kMaxFreed = 1024;
std::atomic<void *> freed[kMaxFreed];
std::atomic<size_t> freed_num{0};
bool quarantine = true;  // without ASan: never really free, so that the demo itself stays defined

auto
WasFreed(const void *p) -> bool
{
  const auto n = freed_num.load();
  for (size_t i = 0; i < n && i < kMaxFreed; ++i) {
    if (freed[i].load() == p) return true;
  }
  return false;
}

void
WaitFor(int s)
{
  while (stage.load() != s) std::this_thread::yield();
}
}  // namespace

// ProtectedNode is alignas(64), hence it is allocated/freed with the aligned forms.
void *
operator new(std::size_t size, std::align_val_t al)
{
  void *p = std::aligned_alloc(static_cast<size_t>(al), (size + static_cast<size_t>(al) - 1) / static_cast<size_t>(al) * static_cast<size_t>(al));
  if (p == nullptr) throw std::bad_alloc{};
  return p;
}

void
operator delete(void *p, std::align_val_t) noexcept
{
  const auto i = freed_num.fetch_add(1);
  if (i < kMaxFreed) freed[i].store(p);
#ifdef DEMO_REALLY_FREE
  std::free(p);
#endif
}

void
operator delete(void *p, std::size_t, std::align_val_t al) noexcept
{
  operator delete(p, al);
}

extern "C" void
h2_hook(int site, const void *node)
{
  if (!is_worker || !worker_armed.load()) return;
  if (site == 0) {
    // the guard exists and pins the current epoch; protected_lists_ not read yet
    stage.store(1);
    WaitFor(2);
  } else if (site == 1 && held_node == nullptr) {
    // first node of the walk: the worker holds `node` and is about to read node->upper_epoch_
    held_node = node;
    stage.store(3);
    WaitFor(4);
    if (WasFreed(node)) {
      std::printf(
          "VIOLATION: worker is about to dereference ProtectedNode %p in GetProtectedEpochs(), "
          "but ForwardGlobalEpoch()/RemoveOutDatedLists() has already deleted it\n",
          node);
      std::fflush(stdout);
    }
  }
}

auto
main() -> int
{
  EpochManager mgr{};

  // epoch 256 -> 511 (the last epoch kept in the first list node N256)
  while (mgr.GetCurrentEpoch() < 511) mgr.ForwardGlobalEpoch();

  size_t guard_epoch = 0;
  size_t list_front = 0;
  size_t list_size = 0;
  std::thread worker{[&] {
    is_worker = true;
    worker_armed.store(true);
    const auto &[guard, list] = mgr.GetProtectedEpochs();  // stalls at site 0, then at site 1
    worker_armed.store(false);
    guard_epoch = guard.GetProtectedEpoch();
    list_size = list.size();
    list_front = list.empty() ? 0 : list.front();
  }};

  WaitFor(1);  // the worker's guard is completely created (epoch 511) ...
  std::printf("worker pinned epoch 511, global epoch = %zu\n", mgr.GetCurrentEpoch());
  mgr.ForwardGlobalEpoch();  // ... 512: a new head node N512 is pushed in front of N256
  stage.store(2);

  WaitFor(3);  // the worker has read protected_lists_ == N512 and stalls before N512->upper_epoch_
  std::printf("worker holds node %p (head when the global epoch was %zu)\n", held_node, mgr.GetCurrentEpoch());
  // 257 more epochs: at 768 node N768 becomes the head, at 769 nothing refers to
  // [512,767] any more -> RemoveOutDatedLists deletes N512 (511 is still pinned, so N256 stays)
  while (mgr.GetCurrentEpoch() < 769) mgr.ForwardGlobalEpoch();
  std::printf("coordinator reached epoch %zu, min epoch = %zu, held node deleted = %d\n", mgr.GetCurrentEpoch(),
              mgr.GetMinEpoch(), static_cast<int>(WasFreed(held_node)));
  std::fflush(stdout);
  const auto violated = WasFreed(held_node);
  stage.store(4);  // the worker now reads N512->upper_epoch_ and N512->next : use after free

  worker.join();
  std::printf("worker: guard epoch = %zu, list.front() = %zu, list.size() = %zu\n", guard_epoch, list_front, list_size);
  return violated ? 1 : 0;
}
