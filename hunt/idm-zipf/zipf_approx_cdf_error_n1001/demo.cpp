// C18: for n >= 1000 and 0 <= alpha <= 3 ApproxZipfDistribution::GetCDF must stay within 0.01 of
// the exact Zipf CDF at every bin.  It does not for n = 1001..1057, 1101..1151, ... 1701..1706.
#include <cmath>
#include <cstdint>
#include <cstdio>
#include <vector>

#include "dbgroup/random/zipf.hpp"

using dbgroup::random::ApproxZipfDistribution;
using dbgroup::random::ZipfDistribution;

template <class T>
static auto
Check(const T min, const uint64_t n, const double alpha) -> bool
{
  const T max = static_cast<T>(min + static_cast<T>(n - 1));
  const ApproxZipfDistribution<T> approx{min, max, alpha};
  const ZipfDistribution<T> exact{min, max, alpha};  // the library's own exact CDF
  // an independent reference in long double
  std::vector<long double> ref(n);
  long double sum = 0;
  for (uint64_t i = 1; i <= n; ++i) {
    sum += 1.0L / powl(static_cast<long double>(i), static_cast<long double>(alpha));
    ref[i - 1] = sum;
  }
  double worst = 0;
  uint64_t worst_k = 0;
  for (uint64_t k = 0; k < n; ++k) {
    const auto err = std::fabs(approx.GetCDF(static_cast<T>(k)) - static_cast<double>(ref[k] / sum));
    if (err > worst) {
      worst = err;
      worst_k = k;
    }
  }
  const auto k = static_cast<T>(worst_k);
  std::printf("n=%5llu alpha=%.2f: max |approx-exact| = %.5f at bin %llu (approx %.5f, exact(lib) %.5f, exact(ref) %.5f) %s\n",
              (unsigned long long)n, alpha, worst, (unsigned long long)worst_k, approx.GetCDF(k), exact.GetCDF(k),
              static_cast<double>(ref[worst_k] / sum), worst > 0.01 ? "<-- VIOLATION" : "");
  return worst > 0.01;
}

int
main()
{
  bool violated = false;
  std::printf("control (n = 1000, the size the tolerance was apparently tuned for):\n");
  for (double a : {0.0, 0.5, 0.75, 1.0, 2.0, 3.0}) (void)Check<uint64_t>(0, 1000, a);
  std::printf("n just above a multiple of 100 (+1):\n");
  for (uint64_t n : {1001ULL, 1010ULL, 1050ULL, 1101ULL, 1201ULL, 1501ULL, 1701ULL}) {
    for (double a : {0.5, 0.75, 1.0}) violated |= Check<uint64_t>(0, n, a);
  }
  violated |= Check<int32_t>(-500, 1001, 0.75);
  violated |= Check<uint32_t>(7, 1001, 0.75);
  violated |= Check<int64_t>(-1000, 1001, 0.75);
  return violated ? 1 : 0;
}
