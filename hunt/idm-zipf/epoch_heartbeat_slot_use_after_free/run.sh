#!/bin/sh
# exits non-zero iff AddressSanitizer (heap-use-after-free) or ThreadSanitizer (data race) reports
set -e
HERE=$(cd "$(dirname "$0")" && pwd)
ROOT=$(cd "$HERE/../.." && pwd)
B=${BUILD_DIR:-$(mktemp -d /tmp/mut/H3-build-XXXXXX)}
mkdir -p "$B"
FLAGS="-std=c++20 -O1 -g -I$ROOT/include -DDBGROUP_MAX_THREAD_NUM=16 -DCPP_UTILITY_SPINLOCK_RETRY_NUM=10 -DCPP_UTILITY_BACKOFF_TIME=10 -DCPP_UTILITY_HAS_SPINLOCK_HINT"
SRC="$HERE/demo.cpp $ROOT/src/thread/id_manager.cpp $ROOT/src/thread/epoch_manager.cpp $ROOT/src/thread/epoch_guard.cpp $ROOT/src/thread/component/epoch.cpp"
g++ $FLAGS -fsanitize=address $SRC -o "$B/epoch_hb_asan" -lpthread
g++ $FLAGS -fsanitize=thread -Wno-tsan $SRC -o "$B/epoch_hb_tsan" -lpthread
set +e
echo "== AddressSanitizer =="
ASAN_OPTIONS="exitcode=67" "$B/epoch_hb_asan" 2>&1 | grep -v "^    #[0-9]* .*\(invoke\|std_thread\|libstdc\|libc\.so\|libasan\|allocat\)" | head -40
ASAN_OPTIONS="exitcode=67" "$B/epoch_hb_asan" >/dev/null 2>&1
rc_a=$?
echo "== ThreadSanitizer =="
TSAN_OPTIONS="exitcode=66 halt_on_error=1" timeout 600 "$B/epoch_hb_tsan" 2>&1 | grep -v "^    #[0-9]* .*\(invoke\|std_thread\|libstdc\|libc\.so\|libtsan\)" | head -30
TSAN_OPTIONS="exitcode=66 halt_on_error=1" timeout 600 "$B/epoch_hb_tsan" >/dev/null 2>&1
rc_t=$?
echo "asan rc=$rc_a tsan rc=$rc_t"
[ -z "$BUILD_DIR" ] && rm -rf "$B"
if [ $rc_a -ne 0 ] || [ $rc_t -ne 0 ]; then exit 1; fi
exit 0
