#!/bin/bash
# exits non-zero iff the violation shows (worker dereferences a deleted ProtectedNode)
set -u
HERE="$(cd "$(dirname "$0")" && pwd)"
ROOT="$(cd "$HERE/../.." && pwd)"           # the library worktree
B="${ROOT}-build-D1"
rm -rf "$B"; mkdir -p "$B/inc/dbgroup/thread" "$B/src"

# private instrumented copies (observation-only hooks)
sed -e 's|^namespace dbgroup::thread$|extern "C" void h2_hook(int site, const void *node);\nnamespace dbgroup::thread|' \
    -e 's|while (node->upper_epoch_ > upper_epoch) {|while ((std::is_constant_evaluated() ? (void)0 : ::h2_hook(1, node)), node->upper_epoch_ > upper_epoch) {|' \
    "$ROOT/include/dbgroup/thread/epoch_manager.hpp" > "$B/inc/dbgroup/thread/epoch_manager.hpp"
sed -e 's|^  const auto &protected_epochs = ProtectedNode::GetProtectedEpochs(e, protected_lists_);|  ::h2_hook(0, nullptr);\n&|' \
    "$ROOT/src/thread/epoch_manager.cpp" > "$B/src/epoch_manager.cpp"
grep -q 'h2_hook(1, node)' "$B/inc/dbgroup/thread/epoch_manager.hpp" || { echo "hook 1 not inserted"; exit 99; }
grep -q 'h2_hook(0, nullptr)' "$B/src/epoch_manager.cpp" || { echo "hook 0 not inserted"; exit 99; }
echo "--- instrumentation diff ---"
diff "$ROOT/include/dbgroup/thread/epoch_manager.hpp" "$B/inc/dbgroup/thread/epoch_manager.hpp"
diff "$ROOT/src/thread/epoch_manager.cpp" "$B/src/epoch_manager.cpp"

FLAGS="-std=c++20 -O1 -g -I$B/inc -I$ROOT/include -DDBGROUP_MAX_THREAD_NUM=16 -DCPP_UTILITY_SPINLOCK_RETRY_NUM=10 -DCPP_UTILITY_BACKOFF_TIME=10 -DCPP_UTILITY_HAS_SPINLOCK_HINT"
SRCS="$HERE/demo.cpp $B/src/epoch_manager.cpp $ROOT/src/thread/epoch_guard.cpp $ROOT/src/thread/id_manager.cpp $ROOT/src/thread/component/epoch.cpp"

rc=0
echo "--- build 1: plain (deleted nodes are tracked and quarantined by the demo) ---"
g++ $FLAGS $SRCS -o "$B/demo_plain" -lpthread || exit 99
timeout 120 "$B/demo_plain"; r1=$?
echo "exit code: $r1"
[ $r1 -ne 0 ] && rc=1

echo "--- build 2: AddressSanitizer (nodes really freed) ---"
g++ $FLAGS -DDEMO_REALLY_FREE -fsanitize=address -fno-omit-frame-pointer $SRCS -o "$B/demo_asan" -lpthread || exit 99
timeout 120 "$B/demo_asan" > "$B/asan.log" 2>&1; r2=$?
head -40 "$B/asan.log"
echo "exit code: $r2"
grep -q 'heap-use-after-free' "$B/asan.log" && rc=1

echo "--- build 3: plain, nodes really freed, no sanitizer (outcome is undefined; on glibc typically SIGSEGV) ---"
g++ $FLAGS -DDEMO_REALLY_FREE $SRCS -o "$B/demo_free" -lpthread || exit 99
timeout 120 "$B/demo_free"; r3=$?
echo "exit code: $r3 (139 = SIGSEGV)"
[ $r3 -ne 0 ] && rc=1

rm -rf "$B"
exit $rc
