// F2: XGuard::DowngradeToSIX() (and SIXGuard::UpgradeToX() on its slow path)
// read the successor link of their queue node with memory_order_relaxed and
// then RMW the successor's node.  The successor published the link with a
// release fetch_add, but a relaxed load does not synchronise with it, so the
// RMW on the successor's node is unordered w.r.t. that node's construction.
//
//   A: LockX()                      (holds X, node nA)
//   B: LockX()                      new nB, ..., nA->lock_.fetch_add(nB, release); waits
//   A: DowngradeToSIX()             next = nA->lock_.load(RELAXED) & ptr   (line 394)
//                                   next->lock_.fetch_xor(kXMask, release) (line 412)  <- races with B's new
#include <atomic>
#include <chrono>
#include <cstdio>
#include <thread>

#include "dbgroup/lock/mcs_lock.hpp"

using dbgroup::lock::MCSLock;

static MCSLock lock_obj;
static std::atomic<int> b_started{0}, a_locked{0};
static long shared_data = 0;

int
main()
{
  std::thread a([] {
    while (b_started.load(std::memory_order_relaxed) == 0) {
    }
    auto x = lock_obj.LockX();
    ++shared_data;
    a_locked.store(1, std::memory_order_relaxed);
    std::this_thread::sleep_for(std::chrono::milliseconds(300));  // B queues behind A meanwhile
    auto six = x.DowngradeToSIX();                                // follows the link to B's node
    std::this_thread::sleep_for(std::chrono::milliseconds(50));
  });
  std::thread b([] {
    b_started.store(1, std::memory_order_relaxed);
    while (a_locked.load(std::memory_order_relaxed) == 0) {
    }
    auto x = lock_obj.LockX();  // allocates its node AFTER A got the lock, links into A's node
    ++shared_data;
  });
  a.join();
  b.join();
  std::printf("done, data=%ld\n", shared_data);
  return 0;
}
