// Lock scenarios: PessimisticLock (family 0), OptimisticLock (1), MCSLock (2).
// Oracles for C01 C02 C03 C07 C08 C09 C10 C11 C12 C13 (DESIGN.md section 4).
// Compiled with -fsanitize=thread (the TSan ABI seam); contains no std::atomic of its own.
#include <optional>
#include <string>
#include <utility>
#include <vector>

#include "common.hpp"
#include "dbgroup/lock/mcs_lock.hpp"
#include "dbgroup/lock/optimistic_lock.hpp"
#include "dbgroup/lock/pessimistic_lock.hpp"

namespace sim
{
namespace
{
using dbgroup::lock::MCSLock;
using dbgroup::lock::OptimisticLock;
using dbgroup::lock::PessimisticLock;

// ---- operation kinds ---------------------------------------------------------------------------
enum Kind : int {
  kSecS = 0,       // LockS; read; release
  kSecSIX,         // LockSIX; read; release
  kSecX,           // LockX; write; release
  kSecSIXUp,       // LockSIX; read; UpgradeToX; write; release
  kSecXDown,       // LockX; write; DowngradeToSIX; read; release
  kSecXDownUp,     // LockX; write; Downgrade; read; Upgrade; write; release
  kSecSIXUpDown,   // LockSIX; read; Upgrade; write; Downgrade; read; release
  kOptVerify,      // GetVersion; read; VerifyVersion (retry a times)
  kOptTryS,        // GetVersion; read; TryLockS ...
  kOptTrySIX,
  kOptTryX,
  kPrepRead,       // PrepareRead; read; VerifyVersion; release
  kTwoLockAssign,  // manipulator only: X(A); X(B); gA = move(gB)   (C07 move-assign over an owning guard; b selects S / SIX / X)
  kEmptyGuards,    // conversions / destruction of default-constructed and moved-from guards
  kSamePairS,      // S(A); S(A); g1 = move(g2): move-assign over an owning guard of the SAME lock (only in programs whose other threads
                   // request nothing but S on that lock, so that the two shared grants of one thread can never wait for each other)
  kTwoLockCompositeAssign,  // manipulator only, OptimisticLock: cA = PrepareRead(A); cB = PrepareRead(B); cA = move(cB)
  kSelfMoveAssign,          // g = Lock*(); g = std::move(g); either outcome is accepted as long as ownership and grant agree (b: S/SIX/X)
  kHandOver,                // g = Lock*(); the guard is moved to a fresh thread that never acquires anything, releases it and exits
  kKinds
};
const char *kKindName[] = {"S", "SIX", "X", "SIX->X", "X->SIX", "X->SIX->X", "SIX->X->SIX", "Opt{read;Verify}", "Opt{read;TryLockS}",
                           "Opt{read;TryLockSIX}", "Opt{read;TryLockX}", "PrepareRead{read;Verify}", "X(A);X(B);gA=move(gB)",
                           "empty-guard-ops", "S(A);S(A);g1=move(g2)",
                           "PrepareRead(A);PrepareRead(B);cA=move(cB)", "g=move(g)",
                           "guard handed to a releasing thread"};
// Op fields: a = extra yields inside the body (0..3) / retries for optimistic ops
//            b = guard manipulation bits (below)
//            c = SetVersion request for the (last) X part: 0 default, >0 fresh advance, <0 republish code
enum Manip : int { kMoveCtor = 1, kAssignEmpty = 2, kAssignMovedFrom = 4, kReleaseByAssign = 8, kProbeMovedFrom = 16 };

enum Profile : int {
  kGeneral = 0,
  kHandoff = 1,    // C02: many short sections, PCT/stall weighted
  kOptimistic = 2, // C03/C09: optimistic readers vs writers, fresh versions only
  kRepublish = 3,  // C03 unconditional clause / C08 ABA family: SetVersion republishes
  kGuards = 4,     // C07: guard manipulation heavy
  kConvert = 5,    // C10: conversion chains
  kFifo = 6,       // C11: one long holder, several queued requests
  kNodes = 7,      // C12: group release orders, two locks
  kPrepare = 8,    // C13: PrepareRead vs long X holders
  kHb = 9          // C08: no optimistic payload reads
};

enum Probe : int {
  pSJoinedWaitingGroup = 0, pUpgradeWaitedForS, pPrepFallbackS, pPrepNonOwning, pTryFailed, pTrySucceeded, pVerifyFailed,
  pVerifyOk, pConflictWaited, pTwoGrants, pVersionWrap, pDowngradeAdmittedS, pSectionsDone, pNodeRecycled,
  pFinalLockX, pCompAssignOwnTarget, pCompAssignOwnSource, pSelfMoveReleased, pSelfMoveKept, pHandOver, pProbes
};
const char *const kProbeNames[] = {"s_request_waited_in_queue", "upgrade_waited_for_shared_holder", "prepare_read_took_shared_fallback",
                                   "prepare_read_returned_version", "trylock_failed", "trylock_succeeded", "verify_failed", "verify_ok",
                                   "request_waited_for_conflicting_holder", "manipulator_held_two_grants", "version_wrapped",
                                   "downgrade_admitted_shared", "sections_completed", "mcs_node_recycled",
                                   "final_lockx_done", "composite_move_assigned_over_owning_target", "composite_move_assigned_from_owning_source", "self_move_assignment_released_the_grant",
                                   "self_move_assignment_kept_the_grant", "guard_released_by_another_thread", nullptr};

constexpr int kTagMcs = 1;
constexpr int kNone = 0, kS = 1, kSIX = 2, kX = 3;
inline bool conflicts(int a, int b) { return a && b && (a == kX || b == kX || (a == kSIX && b == kSIX)); }
const char *kModeName[] = {"-", "S", "SIX", "X"};

enum RegFlag : int { fConv = 1, fMoved = 2, fTry = 4, fPrep = 8 };

// ---- per-run state (allocated by vthread 0 in the arena) -----------------------------------------
struct Pub {
  uint32_t ver;
  uint64_t inv, ret;  // release call interval; ret == 0 while pending
  uint32_t payload;
};
struct Ended {
  dsim::Epoch e;
  int mode, vt;
};
struct Req {
  int vt, mode;
  uint64_t arrival, grant;
};

template <class LockT>
struct LockState {
  LockT *lock = nullptr;
  int idx = 0;
  int mode[dsim::kMaxVT] = {0};
  int flags[dsim::kMaxVT] = {0};
  uint64_t reg_epoch = 0;
  uint32_t pay_a = 0, pay_b = 0;  // written only under X: a = v; yield; b = v
  uint32_t ghost_payload = 0;
  std::vector<Pub> pubs;
  uint64_t rel_inv = 0, rel_ret = 0;
  uint64_t x_epoch = 0;
  int x_holder = -1;
  std::vector<Ended> ended;
  std::vector<Req> reqs;
  int outstanding = 0;
  // ghost holding intervals stamped with the global event sequence number (each is contained in the real grant interval)
  struct Held {
    int vt;
    uint64_t from, to;  // to == 0: still held
  };
  uint64_t held_from[dsim::kMaxVT] = {0};
  std::vector<Held> held_log;
  bool pending() const { return !pubs.empty() && pubs.back().ret == 0 && pubs.size() > 1; }
  uint32_t committed() const { return pending() ? pubs[pubs.size() - 2].ver : pubs.back().ver; }
};

// properties whose API calls returned a non-owning result but left a write in the lock object; a later deadlock / blocked final
// LockX in the same run is then attributed to them as well (a phantom grant nobody will release)
std::string g_suspect_tags;
const char *g_suspect_note = "";
void suspect(const char *tags, const char *note = "after-non-owning-call-modified-lock")
{
  if (g_suspect_tags.empty()) g_suspect_note = note;
  if (g_suspect_tags.find(tags) == std::string::npos) g_suspect_tags += tags;
}
// a grant was released by move-assigning over its owning guard: if that release did not happen the lock stays held by nobody the
// ownership model knows, and whoever requests it next waits for ever - by behaviour alone this cannot be told from a lost hand-off,
// so a later deadlock of the same run is reported under C07 as well as C02
void released_by_move_assign() { suspect("[C07]", "after-release-by-move-assignment"); }
std::string g_prop;  // set once per process from the environment: which property this process checks
bool tagged(const char *tags) { return g_prop.empty() || strstr(tags, g_prop.c_str()) != nullptr; }

struct Shared {
  uint32_t unique = 0;
  int alive = 0;
  bool fresh = true;
  uint64_t other_events = 0;
};

#define ORACLE(tags, cls, ...)                                     \
  do {                                                             \
    if (tagged(tags)) {                                            \
      char _c[160];                                                \
      snprintf(_c, sizeof(_c), "%s %s", tags, cls);                \
      dsim::fail(_c, __VA_ARGS__);                                 \
    } else {                                                       \
      sh.other_events++;                                           \
    }                                                              \
  } while (0)

template <class A>
struct Runner {
  using Lock = typename A::Lock;
  using SG = typename Lock::SGuard;
  using SIXG = typename Lock::SIXGuard;
  using XG = typename Lock::XGuard;
  using LS = LockState<Lock>;

  LS ls[2];
  int nlocks = 1;
  Shared sh;
  const Program *prog = nullptr;

  // ---------------------------------------------------------------------------------------------
  // ghost helpers
  // ---------------------------------------------------------------------------------------------
  static const char *fam() { return A::name(); }

  void reg_begin(LS &L, int m, int fl, const char *via)
  {
    const int me = dsim::self();
    for (int u = 0; u < dsim::kMaxVT; ++u) {
      if (u == me || !conflicts(L.mode[u], m)) continue;
      std::string tags = "[C01]";
      if (((L.flags[u] | fl) & fConv) && (m >= kSIX) ) tags += "[C10]";
      if ((L.flags[u] & fMoved)) tags += "[C07]";
      if (fl & fTry) tags += "[C03]";
      if ((fl | L.flags[u]) & fPrep) tags += "[C13]";
      char cls[96];
      snprintf(cls, sizeof(cls), "registry-conflict %s %s-vs-%s", fam(), kModeName[m], kModeName[L.mode[u]]);
      ORACLE(tags.c_str(), cls, " :: vt%d obtained %s through %s on lock %d while vt%d holds %s", me, kModeName[m], via, L.idx, u,
             kModeName[L.mode[u]]);
    }
    if (L.mode[me] == kNone) L.held_from[me] = dsim::seq();
    L.mode[me] = m;
    L.flags[me] = fl;
    L.reg_epoch++;
    if (m == kX) {
      L.x_holder = me;
      L.x_epoch++;
    }
  }
  // some other vthread's ghost grant covers the instant of event `at` (hence the real lock was held at that instant)
  int other_holder_at(LS &L, uint64_t at) const
  {
    const int me = dsim::self();
    if (at == 0) return -1;
    for (int u = 0; u < dsim::kMaxVT; ++u)
      if (u != me && L.mode[u] != kNone && L.held_from[u] < at) return u;
    for (auto &h : L.held_log)
      if (h.vt != me && h.from < at && h.to >= at) return h.vt;
    return -1;
  }
  void reg_end(LS &L)
  {
    const int me = dsim::self();
    if (L.mode[me] == kX) {
      L.x_holder = -1;
      L.x_epoch++;
    }
    if (L.held_log.size() > 96) L.held_log.erase(L.held_log.begin(), L.held_log.begin() + 48);
    L.held_log.push_back({me, L.held_from[me], dsim::seq()});
    L.mode[me] = kNone;
    L.flags[me] = 0;
    L.reg_epoch++;
  }
  bool others_registered(LS &L) const
  {
    const int me = dsim::self();
    for (int u = 0; u < dsim::kMaxVT; ++u)
      if (u != me && L.mode[u]) return true;
    return false;
  }

  // C08: section bookkeeping
  void hb_end(LS &L, int m)
  {
    if (L.ended.size() > 64) L.ended.erase(L.ended.begin(), L.ended.begin() + 32);
    L.ended.push_back(Ended{dsim::hb_mark(), m, dsim::self()});
  }
  void hb_begin(LS &L, int m, const char *via)
  {
    const int me = dsim::self();
    for (auto &e : L.ended) {
      if (e.vt == me || !conflicts(e.mode, m)) continue;
      if (!dsim::hb_before(e.e)) {
        char cls[96];
        snprintf(cls, sizeof(cls), "not-hb %s %s-section-then-%s-via-%s", fam(), kModeName[e.mode], kModeName[m], via);
        ORACLE("[C08]", cls, " :: the %s section of vt%d on lock %d (epoch %u) does not happen-before the %s grant vt%d obtained through %s",
               kModeName[e.mode], e.vt, L.idx, e.e.c, kModeName[m], me, via);
      }
    }
  }

  // payload access (plain words, a scheduling point before each access)
  void write_payload(LS &L, int yields)
  {
    const uint32_t v = ++sh.unique;
    int r = -1;
    dsim::yield();
    if (!dsim::payload_write(&L.pay_a, &r)) ORACLE("[C08]", "payload-race", " :: %s write of payload races with vt%d on lock %d", fam(), r, L.idx);
    L.pay_a = v;
    for (int i = 0; i <= yields; ++i) dsim::yield();
    if (!dsim::payload_write(&L.pay_b, &r)) ORACLE("[C08]", "payload-race", " :: %s write of payload races with vt%d on lock %d", fam(), r, L.idx);
    L.pay_b = v;
    L.ghost_payload = v;
  }
  uint32_t read_payload_locked(LS &L, int yields, int m, bool chain)
  {
    int r = -1;
    dsim::yield();
    if (!dsim::payload_read(&L.pay_a, &r)) ORACLE("[C08]", "payload-race", " :: %s read of payload races with vt%d on lock %d", fam(), r, L.idx);
    const uint32_t a = L.pay_a;
    for (int i = 0; i <= yields; ++i) dsim::yield();
    if (!dsim::payload_read(&L.pay_b, &r)) ORACLE("[C08]", "payload-race", " :: %s read of payload races with vt%d on lock %d", fam(), r, L.idx);
    const uint32_t b = L.pay_b;
    if (a != b || a != L.ghost_payload) {
      char cls[96];
      snprintf(cls, sizeof(cls), "payload-torn %s under-%s", fam(), kModeName[m]);
      ORACLE(chain ? "[C01][C10]" : "[C01]", cls, " :: read a=%u b=%u under %s on lock %d, last committed write was %u", a, b, kModeName[m], L.idx,
             L.ghost_payload);
    }
    return a;
  }

  // version timeline (OptimisticLock)
  bool possible(LS &L, uint32_t val, uint64_t t1, uint64_t t2) const
  {
    // version pubs[k] may be current from the invocation of the release that publishes it until the return of the next release
    for (size_t k = 0; k < L.pubs.size(); ++k) {
      const uint64_t from = L.pubs[k].inv;
      const uint64_t until = (k + 1 < L.pubs.size() && L.pubs[k + 1].ret != 0) ? L.pubs[k + 1].ret : ~0ULL;
      if (L.pubs[k].ver == val && from <= t2 && until >= t1) return true;
    }
    return false;
  }
  const Pub *pub_for(LS &L, uint32_t ver) const
  {
    for (size_t k = L.pubs.size(); k-- > 0;)
      if (L.pubs[k].ver == ver) return &L.pubs[k];
    return nullptr;
  }
  void x_release_invoke(LS &L, uint32_t new_ver)
  {
    L.pubs.push_back(Pub{new_ver, dsim::seq(), 0, L.ghost_payload});
    L.rel_inv++;
  }
  void x_release_return(LS &L)
  {
    L.pubs.back().ret = dsim::seq();
    L.rel_ret++;
  }

  // C09: the version only changes when an X grant ends
  void check_version_quiescent(LS &L, const char *after)
  {
    if constexpr (A::kOpt) {
      if (L.x_holder >= 0 || L.pending()) return;
      uint32_t v;
      {
        dsim::Observer ob;
        v = L.lock->GetVersion().GetVersion();
      }
      if (v != L.committed()) {
        ORACLE("[C09]", "version-changed-outside-x-release", " :: after %s by vt%d the lock %d reports version %u, ghost version is %u", after,
               dsim::self(), L.idx, v, L.committed());
      }
    }
  }

  // C12(b)
  void check_node_bound(const char *where)
  {
    if constexpr (A::kMcs) {
      int outstanding = 0;
      for (int i = 0; i < nlocks; ++i) outstanding += ls[i].outstanding;
      const size_t live = dsim::heap_live(kTagMcs);
      if (live > static_cast<size_t>(sh.alive + outstanding)) {
        ORACLE("[C12]", "node-bound", " :: %zu live queue nodes with %d running threads and %d outstanding requests (%s)", live, sh.alive,
               outstanding, where);
      }
    }
  }

  template <class G>
  void expect_bool(const G &g, bool want, const char *what)
  {
    if (static_cast<bool>(g) != want) {
      char cls[96];
      snprintf(cls, sizeof(cls), "guard-bool %s %s", fam(), what);
      ORACLE("[C07]", cls, " :: operator bool is %d, the ownership model says %d (vt%d)", static_cast<int>(static_cast<bool>(g)), want ? 1 : 0,
             dsim::self());
    }
  }

  // ---------------------------------------------------------------------------------------------
  // acquisition wrappers: API call bracket, arrival/grant recording, ghost begin
  // ---------------------------------------------------------------------------------------------
  struct CallInfo {
    uint64_t inv = 0;
    bool others_at_inv = false;
    uint64_t reg_epoch_at_inv = 0;
    bool x_at_inv = false;
    uint64_t x_epoch_at_inv = 0;
    bool conflict_at_inv = false;
    uint64_t rel_inv = 0, rel_ret = 0;
  };
  CallInfo pre_call(LS &L, const char *ctx, int want_mode)
  {
    CallInfo ci;
    ci.inv = dsim::seq();
    ci.others_at_inv = others_registered(L);
    ci.reg_epoch_at_inv = L.reg_epoch;
    ci.x_at_inv = L.x_holder >= 0;
    ci.x_epoch_at_inv = L.x_epoch;
    ci.rel_inv = L.rel_inv;
    ci.rel_ret = L.rel_ret;
    const int me = dsim::self();
    for (int u = 0; u < dsim::kMaxVT; ++u)
      if (u != me && conflicts(L.mode[u], want_mode)) ci.conflict_at_inv = true;
    if constexpr (A::kMcs) dsim::set_alloc_tag(kTagMcs);
    dsim::watch_write(L.lock, sizeof(Lock));
    dsim::op_begin(ctx, L.idx);
    return ci;
  }
  // keep_buffered: (weak-store runs) the call returns while its relaxed stores may still sit in the store buffer - used for
  // acquisitions, whose only plain stores initialise queue nodes that a correct lock publishes with release ordering
  void post_call(bool keep_buffered = false)
  {
    if (keep_buffered) dsim::op_end_keep_buffered(); else dsim::op_end();
    if constexpr (A::kMcs) dsim::set_alloc_tag(0);
  }

  void granted(LS &L, const CallInfo &ci, int m, int fl, const char *via, bool queue_request)
  {
    const uint64_t arrival = dsim::watched_write_seq();
    post_call(true);
    reg_begin(L, m, fl, via);
    hb_begin(L, m, via);
    if (ci.conflict_at_inv) dsim::probe(pConflictWaited);
    if (queue_request) {
      L.reqs.push_back(Req{dsim::self(), m, arrival, dsim::seq()});
      if (A::kMcs && m == kS && ci.others_at_inv && ci.conflict_at_inv) dsim::probe(pSJoinedWaitingGroup);
    }
  }

  // ---------------------------------------------------------------------------------------------
  // guard manipulation (C07): moves ownership around according to op.b, checking operator bool
  // ---------------------------------------------------------------------------------------------
  template <class G>
  struct Slots {
    G *cur;
    std::optional<G> mc;
    G empty;
    bool moved = false;
  };
  template <class G>
  void manipulate(LS &L, G &g0, Slots<G> &s, int bits)
  {
    s.cur = &g0;
    expect_bool(s.empty, false, "default-constructed");
    if (bits & kMoveCtor) {
      s.mc.emplace(std::move(*s.cur));
      expect_bool(*s.mc, true, "move-constructed-target");
      expect_bool(g0, false, "moved-from-source");
      s.cur = &*s.mc;
      s.moved = true;
    }
    if (bits & kAssignEmpty) {
      s.empty = std::move(*s.cur);
      expect_bool(s.empty, true, "move-assigned-target(empty)");
      expect_bool(*s.cur, false, "move-assigned-source");
      s.cur = &s.empty;
      s.moved = true;
    }
    if ((bits & kAssignMovedFrom) && s.cur != &g0) {
      g0 = std::move(*s.cur);  // g0 is moved-from at this point
      expect_bool(g0, true, "move-assigned-target(moved-from)");
      expect_bool(*s.cur, false, "move-assigned-source");
      s.cur = &g0;
      s.moved = true;
    }
    if (s.moved) L.flags[dsim::self()] |= fMoved;
  }

  // ---------------------------------------------------------------------------------------------
  // sections
  // ---------------------------------------------------------------------------------------------
  uint32_t requested_version(LS &L, uint32_t acquired, int64_t c) const
  {
    (void)L;
    if (c == 0) return acquired + 1U;
    if (c > 0) return acquired + static_cast<uint32_t>(c);
    switch (c) {
      case -1: return acquired;            // republish the current version
      case -2: return 0U;
      case -3: return 0x80000000U;
      case -4: return 0xFFFFFFFFU;
      default: return acquired - 1U;       // republish the previous default value
    }
  }

  // half of the sections that request a version do so right after the acquisition, i.e. before the guard is moved around: the request
  // travels with the grant (C09: the version becomes exactly the value requested through SetVersion)
  bool early_set_version(LS &L, XG &x, uint32_t acquired, const Op &op)
  {
    if constexpr (A::kOpt) {
      if (op.c != 0 && ((op.a + op.b) & 1)) {
        x.SetVersion(requested_version(L, acquired, op.c));
        return true;
      }
    }
    (void)L; (void)x; (void)acquired; (void)op;
    return false;
  }
  void check_guard_version_after_moves(const XG &x, uint32_t acquired)
  {
    if constexpr (A::kOpt) {
      if (x.GetVersion() != acquired) {
        ORACLE("[C07][C09]", "xguard-version-after-move", " :: moved XGuard reports version %u, acquired with %u", x.GetVersion(), acquired);
      }
    } else {
      (void)x; (void)acquired;
    }
  }

  // everything that has to happen right before the call that releases an X grant
  void x_pre_release(LS &L, XG &x, uint32_t acquired, int64_t c, bool already_set = false)
  {
    uint32_t nv = acquired + 1U;
    if constexpr (A::kOpt) {
      nv = requested_version(L, acquired, c);
      if (c != 0 && !already_set) x.SetVersion(nv);
      if (nv < acquired && c >= 0) dsim::probe(pVersionWrap);
    }
    reg_end(L);
    hb_end(L, kX);
    if constexpr (A::kOpt) x_release_invoke(L, nv);
    if constexpr (A::kMcs) dsim::set_alloc_tag(kTagMcs);
    dsim::op_begin("release X", L.idx);
  }
  // the request stays outstanding (C12 bound) until the releasing call has returned
  void x_post_release(LS &L)
  {
    post_call();
    L.outstanding--;
    if constexpr (A::kOpt) x_release_return(L);
  }
  void sx_post_release(LS &L)
  {
    post_call();
    L.outstanding--;
  }
  void sx_pre_release(LS &L, int m, const char *ctx)
  {
    reg_end(L);
    hb_end(L, m);
    if constexpr (A::kMcs) dsim::set_alloc_tag(kTagMcs);
    dsim::op_begin(ctx, L.idx);
  }

  uint32_t x_begin_version(LS &L, XG &x)
  {
    uint32_t acquired = 0;
    if constexpr (A::kOpt) {
      acquired = x.GetVersion();
      const uint32_t want = L.pubs.back().ver;  // committed, or pending if the previous holder's release has not returned yet
      if (acquired != want) {
        ORACLE("[C09]", "xguard-version", " :: XGuard::GetVersion() is %u at the start of the X grant of vt%d on lock %d, the current version is %u",
               acquired, dsim::self(), L.idx, want);
      }
    } else {
      (void)x;
      (void)L;
    }
    return acquired;
  }

  void sec_s(LS &L, const Op &op)
  {
    {
      L.outstanding++;
      CallInfo ci = pre_call(L, "LockS", kS);
      SG g = L.lock->LockS();
      granted(L, ci, kS, 0, "LockS", true);
      expect_bool(g, true, "LockS-result");
      Slots<SG> s;
      manipulate(L, g, s, static_cast<int>(op.b));
      check_node_bound("S granted");
      read_payload_locked(L, static_cast<int>(op.a), kS, false);
      check_version_quiescent(L, "LockS");
      if (op.b & kProbeMovedFrom) probe_moved_from_s(L, g, s);
      sx_pre_release(L, kS, "release S");
      if (op.b & kReleaseByAssign) {
        *s.cur = SG{};
        sx_post_release(L);
        expect_bool(*s.cur, false, "assigned-empty-over-owning");
        released_by_move_assign();
      }
    }
    if (!(op.b & kReleaseByAssign)) sx_post_release(L);
    check_version_quiescent(L, "release S");
  }
  void probe_moved_from_s(LS &, SG &g, Slots<SG> &s)
  {
    // destroying / overwriting a non-owning guard has no effect
    if (s.cur != &g) {
      g = SG{};
      expect_bool(g, false, "moved-from-assigned-empty");
    }
  }

  void sec_six(LS &L, const Op &op)
  {
    {
      L.outstanding++;
      CallInfo ci = pre_call(L, "LockSIX", kSIX);
      SIXG g = L.lock->LockSIX();
      granted(L, ci, kSIX, 0, "LockSIX", true);
      expect_bool(g, true, "LockSIX-result");
      Slots<SIXG> s;
      manipulate(L, g, s, static_cast<int>(op.b));
      check_node_bound("SIX granted");
      read_payload_locked(L, static_cast<int>(op.a), kSIX, false);
      check_version_quiescent(L, "LockSIX");
      if ((op.b & kProbeMovedFrom) && s.cur != &g) {
        dsim::op_begin("UpgradeToX(moved-from)", L.idx);
        XG none = g.UpgradeToX();
        dsim::op_end();
        expect_bool(none, false, "upgrade-of-moved-from");
      }
      sx_pre_release(L, kSIX, "release SIX");
      if (op.b & kReleaseByAssign) {
        *s.cur = SIXG{};
        sx_post_release(L);
        expect_bool(*s.cur, false, "assigned-empty-over-owning");
        released_by_move_assign();
      }
    }
    if (!(op.b & kReleaseByAssign)) sx_post_release(L);
    check_version_quiescent(L, "release SIX");
  }

  void sec_x(LS &L, const Op &op)
  {
    {
      L.outstanding++;
      CallInfo ci = pre_call(L, "LockX", kX);
      XG g = L.lock->LockX();
      granted(L, ci, kX, 0, "LockX", true);
      expect_bool(g, true, "LockX-result");
      const uint32_t acquired = x_begin_version(L, g);
      const bool early = early_set_version(L, g, acquired, op);
      Slots<XG> s;
      manipulate(L, g, s, static_cast<int>(op.b));
      check_guard_version_after_moves(*s.cur, acquired);
      check_node_bound("X granted");
      read_payload_locked(L, 0, kX, false);
      write_payload(L, static_cast<int>(op.a));
      if ((op.b & kProbeMovedFrom) && s.cur != &g) {
        dsim::op_begin("DowngradeToSIX(moved-from)", L.idx);
        SIXG none = g.DowngradeToSIX();
        dsim::op_end();
        expect_bool(none, false, "downgrade-of-moved-from");
      }
      x_pre_release(L, *s.cur, acquired, op.c, early);
      if (op.b & kReleaseByAssign) {
        *s.cur = XG{};
        x_post_release(L);
        expect_bool(*s.cur, false, "assigned-empty-over-owning");
        released_by_move_assign();
      }
    }
    if (!(op.b & kReleaseByAssign)) x_post_release(L);
    check_version_quiescent(L, "release X");
  }

  // conversion helpers: the ghost keeps the weaker mode (SIX) registered for the whole call
  XG upgrade(LS &L, SIXG &six, uint32_t seen_under_six, uint32_t *acquired)
  {
    const int me = dsim::self();
    hb_end(L, kSIX);
    L.flags[me] |= fConv;
    bool s_present = false;
    for (int u = 0; u < dsim::kMaxVT; ++u)
      if (u != me && L.mode[u] == kS) s_present = true;
    if constexpr (A::kMcs) dsim::set_alloc_tag(kTagMcs);
    dsim::op_begin("UpgradeToX", L.idx);
    XG x = six.UpgradeToX();
    post_call();
    if (s_present) dsim::probe(pUpgradeWaitedForS);
    expect_bool(x, true, "UpgradeToX-result");
    expect_bool(six, false, "guard-consumed-by-UpgradeToX");
    for (int u = 0; u < dsim::kMaxVT; ++u) {
      if (u != me && L.mode[u] == kS) {
        char cls[96];
        snprintf(cls, sizeof(cls), "upgrade-returned-with-shared-holder %s", fam());
        ORACLE("[C10][C01]", cls, " :: UpgradeToX of vt%d on lock %d returned while vt%d still holds S", me, L.idx, u);
      }
    }
    // re-register as X (conflict check against everybody else) -- flags keep fConv
    const int fl = L.flags[me];
    reg_begin(L, kX, fl, "UpgradeToX");  // the registration stays continuous (held_from is kept)
    hb_begin(L, kX, "UpgradeToX");
    *acquired = x_begin_version(L, x);
    const uint32_t now = read_payload_locked(L, 0, kX, true);
    if (now != seen_under_six) {
      char cls[96];
      snprintf(cls, sizeof(cls), "payload-changed-across-upgrade %s", fam());
      ORACLE("[C10]", cls, " :: vt%d read %u under SIX and %u right after UpgradeToX on lock %d", me, seen_under_six, now, L.idx);
    }
    return x;
  }
  SIXG downgrade(LS &L, XG &x, uint32_t acquired, int64_t c, bool already_set = false)
  {
    const int me = dsim::self();
    uint32_t nv = acquired + 1U;
    if constexpr (A::kOpt) {
      nv = requested_version(L, acquired, c);
      if (c != 0 && !already_set) x.SetVersion(nv);
    }
    // the X part ends here; re-register as SIX *before* the call so that shared holders admitted mid-call are never flagged
    hb_end(L, kX);
    const int fl = L.flags[me] | fConv;
    L.x_holder = -1;
    L.x_epoch++;
    L.mode[me] = kSIX;
    L.flags[me] = fl;
    L.reg_epoch++;
    if constexpr (A::kOpt) x_release_invoke(L, nv);
    if constexpr (A::kMcs) dsim::set_alloc_tag(kTagMcs);
    dsim::op_begin("DowngradeToSIX", L.idx);
    SIXG six = x.DowngradeToSIX();
    post_call();
    if constexpr (A::kOpt) x_release_return(L);
    expect_bool(six, true, "DowngradeToSIX-result");
    expect_bool(x, false, "guard-consumed-by-DowngradeToSIX");
    hb_begin(L, kSIX, "DowngradeToSIX");
    return six;
  }

  void sec_six_up(LS &L, const Op &op, bool then_down)
  {
    {
      L.outstanding++;
      CallInfo ci = pre_call(L, "LockSIX", kSIX);
      SIXG g = L.lock->LockSIX();
      granted(L, ci, kSIX, fConv, "LockSIX", true);
      expect_bool(g, true, "LockSIX-result");
      Slots<SIXG> s;
      manipulate(L, g, s, static_cast<int>(op.b) & (kMoveCtor | kAssignEmpty | kAssignMovedFrom));
      const uint32_t seen = read_payload_locked(L, static_cast<int>(op.a), kSIX, true);
      uint32_t acquired = 0;
      XG x = upgrade(L, *s.cur, seen, &acquired);
      check_node_bound("upgraded");
      write_payload(L, static_cast<int>(op.a));
      if (then_down) {
        SIXG six2 = downgrade(L, x, acquired, op.c);
        check_version_quiescent(L, "DowngradeToSIX");
        read_payload_locked(L, 0, kSIX, true);
        sx_pre_release(L, kSIX, "release SIX");
      } else {
        x_pre_release(L, x, acquired, op.c);
      }
    }
    if (then_down) sx_post_release(L); else x_post_release(L);
    check_version_quiescent(L, "release after conversion");
  }

  void sec_x_down(LS &L, const Op &op, bool then_up)
  {
    {
      L.outstanding++;
      CallInfo ci = pre_call(L, "LockX", kX);
      XG g = L.lock->LockX();
      granted(L, ci, kX, fConv, "LockX", true);
      expect_bool(g, true, "LockX-result");
      uint32_t acquired = x_begin_version(L, g);
      const bool early = !then_up && early_set_version(L, g, acquired, op);
      Slots<XG> s;
      manipulate(L, g, s, static_cast<int>(op.b) & (kMoveCtor | kAssignEmpty | kAssignMovedFrom));
      check_guard_version_after_moves(*s.cur, acquired);
      write_payload(L, static_cast<int>(op.a));
      SIXG six = downgrade(L, *s.cur, acquired, then_up ? 0 : op.c, early);
      check_version_quiescent(L, "DowngradeToSIX");
      check_node_bound("downgraded");
      const uint32_t seen = read_payload_locked(L, static_cast<int>(op.a), kSIX, true);
      for (int u = 0; u < dsim::kMaxVT; ++u)
        if (u != dsim::self() && L.mode[u] == kS) dsim::probe(pDowngradeAdmittedS);
      if (then_up) {
        XG x2 = upgrade(L, six, seen, &acquired);
        write_payload(L, 0);
        x_pre_release(L, x2, acquired, op.c);
      } else {
        sx_pre_release(L, kSIX, "release SIX");
      }
    }
    if (then_up) x_post_release(L); else sx_post_release(L);
    check_version_quiescent(L, "release after conversion");
  }

  // conversions and destruction of guards that own nothing (C07)
  void sec_empty(LS &L, const Op &)
  {
    {
      SIXG d6;
      XG dx;
      SG ds;
      expect_bool(d6, false, "default-constructed");
      expect_bool(dx, false, "default-constructed");
      expect_bool(ds, false, "default-constructed");
      dsim::op_begin("UpgradeToX(empty)", L.idx);
      XG r1 = d6.UpgradeToX();
      dsim::op_end();
      expect_bool(r1, false, "upgrade-of-default-constructed");
      dsim::op_begin("DowngradeToSIX(empty)", L.idx);
      SIXG r2 = dx.DowngradeToSIX();
      dsim::op_end();
      expect_bool(r2, false, "downgrade-of-default-constructed");
      SG ms{std::move(ds)};
      expect_bool(ms, false, "move-of-default-constructed");
      ds = std::move(ms);
      expect_bool(ds, false, "assign-of-empty");
      dsim::op_begin("destroy empty guards", L.idx);
    }
    dsim::op_end();
    check_version_quiescent(L, "empty guard operations");
  }

  // manipulator: holds two grants on two different locks, then move-assigns one guard over the other
  void sec_two_lock_assign(const Op &op)
  {
    if (nlocks < 2) return;
    LS &A0 = ls[0], &B0 = ls[1];
    {
      A0.outstanding++;
      CallInfo ca = pre_call(A0, "LockX", kX);
      XG ga = A0.lock->LockX();
      granted(A0, ca, kX, fMoved, "LockX", true);
      const uint32_t acq_a = x_begin_version(A0, ga);
      write_payload(A0, 0);
      B0.outstanding++;
      CallInfo cb = pre_call(B0, "LockX", kX);
      XG gb = B0.lock->LockX();
      granted(B0, cb, kX, fMoved, "LockX", true);
      const uint32_t acq_b = x_begin_version(B0, gb);
      const bool early_b = early_set_version(B0, gb, acq_b, op);
      dsim::probe(pTwoGrants);
      write_payload(B0, static_cast<int>(op.a));
      // ga = move(gb): releases A exactly once, ga now owns B
      x_pre_release(A0, ga, acq_a, 0);
      ga = std::move(gb);
      x_post_release(A0);
      released_by_move_assign();
      expect_bool(ga, true, "move-assigned-over-owning-target");
      expect_bool(gb, false, "move-assigned-source");
      if constexpr (A::kOpt) {
        if (ga.GetVersion() != acq_b) {
          ORACLE("[C07][C09]", "xguard-version-after-move", " :: moved XGuard reports version %u, acquired with %u", ga.GetVersion(), acq_b);
        }
      }
      check_version_quiescent(A0, "move-assign over owning guard");
      write_payload(B0, 0);
      x_pre_release(B0, ga, acq_b, op.c, early_b);
    }
    x_post_release(B0);
    check_version_quiescent(B0, "release X");
  }

  // two shared grants of one thread on one lock; g1 = move(g2) releases exactly one of them, g2 owns nothing afterwards and the
  // lock is free once g1 is gone (a leaked grant blocks the final LockX of the run).  The ghost registry keeps one S entry for both.
  void sec_same_pair_s(LS &L, const Op &op)
  {
    {
      L.outstanding++;
      CallInfo c1 = pre_call(L, "LockS", kS);
      SG g1 = L.lock->LockS();
      granted(L, c1, kS, fMoved, "LockS", true);
      expect_bool(g1, true, "LockS-result");
      read_payload_locked(L, 0, kS, false);
      L.outstanding++;
      if constexpr (A::kMcs) dsim::set_alloc_tag(kTagMcs);
      dsim::op_begin("LockS (second grant of this thread)", L.idx);
      SG g2 = L.lock->LockS();
      post_call(true);
      expect_bool(g2, true, "LockS-result");
      dsim::probe(pTwoGrants);
      check_node_bound("second S granted");
      read_payload_locked(L, static_cast<int>(op.a), kS, false);
      if constexpr (A::kMcs) dsim::set_alloc_tag(kTagMcs);
      dsim::op_begin("release S by move-assign (same lock)", L.idx);
      g1 = std::move(g2);
      post_call();
      L.outstanding--;
      released_by_move_assign();
      expect_bool(g1, true, "move-assigned-over-owning-target(same lock)");
      expect_bool(g2, false, "move-assigned-source(same lock)");
      if (op.b & kMoveCtor) {
        SG g3{std::move(g2)};  // moved-from source: owns nothing, destroying it has no effect
        expect_bool(g3, false, "move-constructed-from-moved-from");
      }
      read_payload_locked(L, 0, kS, false);
      check_version_quiescent(L, "move-assign over owning guard (same lock)");
      sx_pre_release(L, kS, "release S");
    }
    sx_post_release(L);
    check_version_quiescent(L, "release S");
  }

  // the same for shared and SIX guards: S/SIX(A); S/SIX(B); gA = move(gB)
  template <int M>
  void sec_two_lock_assign_sx(const Op &op)
  {
    using G = std::conditional_t<M == kS, SG, SIXG>;
    if (nlocks < 2) return;
    LS &A0 = ls[0], &B0 = ls[1];
    const char *api = M == kS ? "LockS" : "LockSIX";
    auto acquire = [](LS &L) -> G {
      if constexpr (M == kS) return L.lock->LockS(); else return L.lock->LockSIX();
    };
    {
      A0.outstanding++;
      CallInfo ca = pre_call(A0, api, M);
      G ga = acquire(A0);
      granted(A0, ca, M, fMoved, api, true);
      expect_bool(ga, true, "Lock-result");
      read_payload_locked(A0, 0, M, false);
      B0.outstanding++;
      CallInfo cb = pre_call(B0, api, M);
      G gb = acquire(B0);
      granted(B0, cb, M, fMoved, api, true);
      dsim::probe(pTwoGrants);
      read_payload_locked(B0, static_cast<int>(op.a), M, false);
      // ga = move(gb): releases A exactly once, ga now owns B
      sx_pre_release(A0, M, "release by move-assign over owning guard");
      ga = std::move(gb);
      sx_post_release(A0);
      released_by_move_assign();
      expect_bool(ga, true, "move-assigned-over-owning-target");
      expect_bool(gb, false, "move-assigned-source");
      check_version_quiescent(A0, "move-assign over owning guard");
      read_payload_locked(B0, 0, M, false);
      sx_pre_release(B0, M, M == kS ? "release S" : "release SIX");
    }
    sx_post_release(B0);
    check_version_quiescent(B0, "release after move-assign");
  }

  // a grant taken by one thread and released by another: the guard is moved into a box, a fresh thread receives it, uses the grant,
  // destroys the guard and exits without ever having called Lock* itself (C07: released exactly once, by whoever owns the guard; C12:
  // the queue node pooled by the releasing thread is freed when that thread exits).
  template <int M>
  struct Box {
    Runner *r;
    LS *L;
    std::conditional_t<M == kS, SG, std::conditional_t<M == kSIX, SIXG, XG>> g;
    uint32_t acquired;
    int64_t c;
    int yields;
    int from_vt;
  };
  template <int M>
  static void receiver_fn(void *p)
  {
    auto *b = static_cast<Box<M> *>(p);
    Runner &r = *b->r;
    LS &L = *b->L;
    {
      // the ghost grant moves from the acquiring thread (blocked in join) to this one without a gap: nothing has run between the
      // start of this thread and here, and checks like "no X holder, so GetVersion returns" must never see the lock unowned
      const int me = dsim::self();
      L.mode[me] = L.mode[b->from_vt];
      L.flags[me] = L.flags[b->from_vt] | fMoved;
      L.held_from[me] = L.held_from[b->from_vt];
      L.mode[b->from_vt] = kNone;
      L.flags[b->from_vt] = 0;
      if (L.x_holder == b->from_vt) L.x_holder = me;
      L.reg_epoch++;
    }
    r.hb_begin(L, M, "hand-over");
    r.expect_bool(b->g, true, "handed-over-guard");
    if constexpr (M == kX) r.write_payload(L, b->yields); else r.read_payload_locked(L, b->yields, M, false);
    if constexpr (M == kX) r.x_pre_release(L, b->g, b->acquired, b->c); else r.sx_pre_release(L, M, "release by the receiving thread");
    {
      auto local = std::move(b->g);
    }
    if constexpr (M == kX) r.x_post_release(L); else r.sx_post_release(L);
    r.expect_bool(b->g, false, "moved-from-source");
    delete b;
    dsim::set_pos(1000);
  }
  template <int M>
  void sec_hand_over(LS &L, const Op &op)
  {
    using G = std::conditional_t<M == kS, SG, std::conditional_t<M == kSIX, SIXG, XG>>;
    const char *api = M == kS ? "LockS" : (M == kSIX ? "LockSIX" : "LockX");
    L.outstanding++;
    CallInfo ci = pre_call(L, api, M);
    G g = [&]() -> G {
      if constexpr (M == kS) return L.lock->LockS();
      else if constexpr (M == kSIX) return L.lock->LockSIX();
      else return L.lock->LockX();
    }();
    granted(L, ci, M, fMoved, api, true);
    expect_bool(g, true, "Lock-result");
    uint32_t acquired = 0;
    if constexpr (M == kX) {
      acquired = x_begin_version(L, g);
      write_payload(L, 0);
    } else {
      read_payload_locked(L, 0, M, false);
    }
    if (dsim::next_vt_id() + 4 >= dsim::kMaxVT) {  // no vthread left for a receiver: an ordinary release
      if constexpr (M == kX) x_pre_release(L, g, acquired, op.c); else sx_pre_release(L, M, "release");
      {
        G local{std::move(g)};
      }
      if constexpr (M == kX) x_post_release(L); else sx_post_release(L);
      return;
    }
    auto *box = new Box<M>{this, &L, std::move(g), acquired, op.c, static_cast<int>(op.a), dsim::self()};
    expect_bool(g, false, "moved-from-source");
    hb_end(L, M);  // this thread's section ends here; its ghost grant is taken over by the receiver
    dsim::probe(pHandOver);
    sh.alive++;
    const int child = dsim::spawn(receiver_fn<M>, box, "receiver");
    dsim::join(child);
    sh.alive--;
    check_version_quiescent(L, "release by the receiving thread");
  }

  // self move-assignment of an owning guard.  Whether it releases the grant (the guard then owns nothing) or leaves everything as it
  // was is the implementation's choice; what C07 fixes is that ownership and grant agree afterwards: a guard that converts to true
  // still holds (nobody else gets a conflicting grant, one release at destruction), a guard that converts to false has released once.
  template <int M>
  void sec_self_move(LS &L, const Op &op)
  {
    using G = std::conditional_t<M == kS, SG, std::conditional_t<M == kSIX, SIXG, XG>>;
    const char *api = M == kS ? "LockS" : (M == kSIX ? "LockSIX" : "LockX");
    bool kept = false;
    {
      L.outstanding++;
      CallInfo ci = pre_call(L, api, M);
      G g = [&]() -> G {
        if constexpr (M == kS) return L.lock->LockS();
        else if constexpr (M == kSIX) return L.lock->LockSIX();
        else return L.lock->LockX();
      }();
      granted(L, ci, M, fMoved, api, true);
      expect_bool(g, true, "Lock-result");
      if constexpr (M == kX) write_payload(L, 0); else read_payload_locked(L, 0, M, false);
      // the ghost grant ends before the call that may release
      if constexpr (M == kX) x_pre_release(L, g, 0, 0); else sx_pre_release(L, M, "self move-assignment");
      G *alias = &g;
      g = std::move(*alias);
      post_call();
      kept = static_cast<bool>(g);
      if (kept) {
        dsim::probe(pSelfMoveKept);
        reg_begin(L, M, fMoved, "self move-assignment (guard still owns)");
        hb_begin(L, M, "self move-assignment");
        if constexpr (M == kX) write_payload(L, static_cast<int>(op.a)); else read_payload_locked(L, static_cast<int>(op.a), M, false);
        if constexpr (M == kX) x_pre_release(L, g, 0, 0); else sx_pre_release(L, M, "release after self move-assignment");
      } else {
        dsim::probe(pSelfMoveReleased);
        L.outstanding--;
        released_by_move_assign();
        dsim::op_begin("destroy guard emptied by self move-assignment", L.idx);
      }
    }
    if (kept) {
      if constexpr (M == kX) x_post_release(L); else sx_post_release(L);
    } else {
      post_call();
    }
    check_version_quiescent(L, "self move-assignment");
  }

  // composite guards of two locks, whatever they own: cA = move(cB) releases A's shared grant if cA had one, cA then is what cB was
  void sec_two_lock_composite_assign(const Op &op)
  {
    if constexpr (A::kOpt) {
      if (nlocks < 2) return;
      using CG = OptimisticLock::CompositeGuard;
      LS &A0 = ls[0], &B0 = ls[1];
      {
        A0.outstanding++;
        CallInfo ca = pre_call(A0, "PrepareRead", kNone);
        CG ga = A0.lock->PrepareRead();
        const bool own_a = static_cast<bool>(ga);
        if (own_a) {
          granted(A0, ca, kS, fPrep | fMoved, "PrepareRead", false);
          read_payload_locked(A0, 0, kS, false);
        } else {
          if (dsim::watched_write_seq() != 0) suspect("[C13]");
          post_call();
        }
        B0.outstanding++;
        CallInfo cb = pre_call(B0, "PrepareRead", kNone);
        CG gb = B0.lock->PrepareRead();
        const bool own_b = static_cast<bool>(gb);
        if (own_b) {
          granted(B0, cb, kS, fPrep | fMoved, "PrepareRead", false);
        } else {
          if (dsim::watched_write_seq() != 0) suspect("[C13]");
          post_call();
        }
        if (own_a) dsim::probe(pCompAssignOwnTarget);
        if (own_b) dsim::probe(pCompAssignOwnSource);
        const uint32_t ver_b = gb.GetVersion();
        if (own_a) sx_pre_release(A0, kS, "release composite S by move-assign"); else dsim::op_begin("move-assign over non-owning composite", A0.idx);
        ga = std::move(gb);
        sx_post_release(A0);
        if (own_a) released_by_move_assign();
        expect_bool(ga, own_b, "composite-move-assigned-target");
        expect_bool(gb, false, "composite-move-assigned-source");
        if (ga.GetVersion() != ver_b) {
          ORACLE("[C07][C13]", "composite-version-after-move", " :: moved composite guard reports version %u, the source carried %u", ga.GetVersion(), ver_b);
        }
        check_version_quiescent(A0, "move-assign over composite guard");
        if (own_b) {
          read_payload_locked(B0, static_cast<int>(op.a), kS, false);
          pre_call(B0, "CompositeGuard::VerifyVersion", kNone);
          const bool ok = ga.VerifyVersion();
          post_call();
          if (!ok) ORACLE("[C13]", "verify-failed-on-owning-composite", " :: VerifyVersion of an owning composite guard returned false (vt%d, lock %d)", dsim::self(), B0.idx);
          expect_bool(ga, true, "owning-composite-after-verify");
          sx_pre_release(B0, kS, "release composite S");
        } else {
          dsim::op_begin("destroy non-owning composite", B0.idx);
        }
      }
      sx_post_release(B0);
      check_version_quiescent(B0, "release composite");
    } else {
      (void)op;
    }
  }

  // ---------------------------------------------------------------------------------------------
  // optimistic operations (family 1 only)
  // ---------------------------------------------------------------------------------------------
  struct OptRead {
    uint32_t a = 0, b = 0;
  };
  OptRead read_payload_optimistic(LS &L, int yields)
  {
    OptRead r;
    dsim::yield();
    r.a = L.pay_a;
    for (int i = 0; i <= yields; ++i) dsim::yield();
    r.b = L.pay_b;
    return r;
  }

  // a version handed out by GetVersion / non-owning PrepareRead
  void check_sampled_version(LS &L, const CallInfo &ci, uint32_t v, const char *api, const char *tags)
  {
    const uint64_t ret = dsim::seq();
    if (ci.x_at_inv && L.x_holder >= 0 && L.x_epoch == ci.x_epoch_at_inv) {
      char cls[96];
      snprintf(cls, sizeof(cls), "%s-returned-during-x", api);
      ORACLE(tags, cls, " :: %s of vt%d returned version %u while vt%d held X on lock %d during the whole call", api, dsim::self(), v, L.x_holder,
             L.idx);
    }
    if (!possible(L, v, ci.inv, ret)) {
      char cls[96];
      snprintf(cls, sizeof(cls), "%s-version-never-current", api);
      ORACLE(tags, cls, " :: %s of vt%d returned version %u which was not the version of lock %d at any instant of the call (ghost %u)", api,
             dsim::self(), v, L.idx, L.committed());
    }
  }

  // a version check (VerifyVersion or TryLock*) by a guard that carried `carried`; `rel_inv_at_obtain` is the number of X-release
  // calls that had been invoked when the call that obtained `carried` returned
  void check_validation(LS &L, const CallInfo &ci, bool ok, uint32_t carried, uint32_t after, uint64_t rel_inv_at_obtain, const OptRead *rd,
                        const char *api, bool took_x, uint64_t grant_seq = 0)
  {
    const uint64_t ret = dsim::seq();
    if (ok && sh.fresh && grant_seq != 0) {
      // the instant the grant was taken (the call's first write to the lock object) is known: every X-release call that had
      // returned before it, and was invoked after the version was obtained, has committed a different version by then
      uint64_t returned_before_grant = 0;
      for (size_t k = 1; k < L.pubs.size(); ++k)
        if (L.pubs[k].ret != 0 && L.pubs[k].ret < grant_seq) returned_before_grant++;
      if (returned_before_grant > rel_inv_at_obtain) {
        char cls[96];
        snprintf(cls, sizeof(cls), "%s-granted-after-x-commit", api);
        ORACLE("[C03]", cls, " :: %s of vt%d took its grant on lock %d at event %lu with version %u although an exclusive section had been committed since that version was obtained",
               api, dsim::self(), L.idx, static_cast<unsigned long>(grant_seq), carried);
      }
    }
    if (ok) {
      const bool x_other = L.x_holder >= 0 && !(took_x && L.x_holder == dsim::self());
      if (ci.x_at_inv && x_other && L.x_epoch == ci.x_epoch_at_inv) {
        char cls[96];
        snprintf(cls, sizeof(cls), "%s-succeeded-during-x", api);
        ORACLE("[C03]", cls, " :: %s of vt%d succeeded while vt%d held X on lock %d during the whole call", api, dsim::self(), L.x_holder, L.idx);
      }
      if (!possible(L, carried, ci.inv, ret)) {
        char cls[96];
        snprintf(cls, sizeof(cls), "%s-succeeded-with-stale-version", api);
        ORACLE("[C03]", cls, " :: %s of vt%d succeeded with version %u which lock %d did not have at any instant of the call (ghost %u)", api,
               dsim::self(), carried, L.idx, L.committed());
      }
      if (sh.fresh) {
        if (ci.rel_ret > rel_inv_at_obtain) {
          char cls[96];
          snprintf(cls, sizeof(cls), "%s-succeeded-across-x-commit", api);
          ORACLE("[C03]", cls, " :: %s of vt%d succeeded although an exclusive section was committed on lock %d since version %u was obtained", api,
                 dsim::self(), L.idx, carried);
        }
        if (rd != nullptr) {
          const Pub *p = pub_for(L, carried);
          if (rd->a != rd->b || (p != nullptr && rd->a != p->payload)) {
            char cls[96];
            snprintf(cls, sizeof(cls), "%s-validated-inconsistent-snapshot", api);
            ORACLE("[C03]", cls, " :: %s of vt%d validated the reads a=%u b=%u for version %u on lock %d (published payload %u)", api, dsim::self(),
                   rd->a, rd->b, carried, L.idx, p ? p->payload : 0);
          }
        }
      }
    } else {
      const bool nothing_changed = ci.rel_inv == L.rel_inv && ci.rel_ret == L.rel_ret && ci.rel_inv == ci.rel_ret && L.committed() == carried;
      if (nothing_changed) {
        char cls[96];
        snprintf(cls, sizeof(cls), "%s-failed-although-version-unchanged", api);
        ORACLE("[C03]", cls, " :: %s of vt%d failed although lock %d had version %u during the whole call", api, dsim::self(), L.idx, carried);
      }
      if (!possible(L, after, ci.inv, ret) || (!L.pending() && ci.rel_inv == L.rel_inv && after != L.committed())) {
        char cls[96];
        snprintf(cls, sizeof(cls), "%s-failed-without-refresh", api);
        ORACLE("[C03]", cls, " :: after a failed %s the guard of vt%d carries %u, lock %d has version %u", api, dsim::self(), after, L.idx,
               L.committed());
      }
    }
  }

  void opt_section(LS &L, const Op &op)
  {
    if constexpr (A::kOpt) {
      using OG = OptimisticLock::OptGuard;
      CallInfo cg = pre_call(L, "GetVersion", kNone);
      OG og = L.lock->GetVersion();
      if (dsim::watched_write_seq() != 0) suspect("[C03]");
      post_call();
      check_sampled_version(L, cg, og.GetVersion(), "GetVersion", "[C03]");
      expect_bool(og, false, "OptGuard");
      uint64_t rel_inv_at_obtain = L.rel_inv;
      for (int attempt = 0; attempt <= static_cast<int>(op.a); ++attempt) {
        if ((op.b & kMoveCtor) && attempt == 1) {
          // OptGuard is copyable: a copy carries the same version and validates the same way
          OG copy = og;
          if (copy.GetVersion() != og.GetVersion()) {
            ORACLE("[C03]", "optguard-copy-version", " :: a copy of an OptGuard carries version %u, the original %u", copy.GetVersion(), og.GetVersion());
          }
          og = copy;
        }
        const OptRead rd = read_payload_optimistic(L, attempt & 1);
        const uint32_t carried = og.GetVersion();
        bool ok = false;
        switch (op.kind) {
          case kOptVerify: {
            CallInfo ci = pre_call(L, "VerifyVersion", kNone);
            ok = og.VerifyVersion();
            if (dsim::watched_write_seq() != 0) suspect("[C03]");
            post_call();
            check_validation(L, ci, ok, carried, og.GetVersion(), rel_inv_at_obtain, &rd, "VerifyVersion", false);
            dsim::probe(ok ? pVerifyOk : pVerifyFailed);
            break;
          }
          case kOptTryS: {
            L.outstanding++;
            CallInfo ci = pre_call(L, "TryLockS", kNone);
            {
              SG g = og.TryLockS();
              ok = static_cast<bool>(g);
              const uint64_t grant_seq = dsim::watched_write_seq();
              if (!ok && grant_seq != 0) suspect("[C03]");
              if (ok) granted(L, ci, kS, fTry, "TryLockS", false); else post_call();
              check_validation(L, ci, ok, carried, og.GetVersion(), rel_inv_at_obtain, &rd, "TryLockS", false, grant_seq);
              if (ok) {
                Slots<SG> s;
                manipulate(L, g, s, static_cast<int>(op.b));
                read_payload_locked(L, 0, kS, false);
                check_version_quiescent(L, "TryLockS");
                sx_pre_release(L, kS, "release S");
              } else {
                expect_bool(g, false, "failed-TryLockS-result");
                dsim::op_begin("destroy empty guard", L.idx);
              }
            }
            sx_post_release(L);
            break;
          }
          case kOptTrySIX: {
            L.outstanding++;
            bool converted = false, converted_to_six = false;
            CallInfo ci = pre_call(L, "TryLockSIX", kNone);
            {
              SIXG g = og.TryLockSIX();
              ok = static_cast<bool>(g);
              const uint64_t grant_seq = dsim::watched_write_seq();
              if (!ok && grant_seq != 0) suspect("[C03]");
              if (ok) granted(L, ci, kSIX, fTry, "TryLockSIX", false); else post_call();
              check_validation(L, ci, ok, carried, og.GetVersion(), rel_inv_at_obtain, &rd, "TryLockSIX", false, grant_seq);
              if (ok) {
                Slots<SIXG> s;
                manipulate(L, g, s, static_cast<int>(op.b));
                const uint32_t seen = read_payload_locked(L, 0, kSIX, (op.a & 1) != 0);
                check_version_quiescent(L, "TryLockSIX");
                if (op.a & 1) {
                  // the grant obtained through TryLockSIX is converted further: UpgradeToX, write, release (or DowngradeToSIX first)
                  converted = true;
                  uint32_t acquired = 0;
                  XG x = upgrade(L, *s.cur, seen, &acquired);
                  if (acquired != carried) {
                    ORACLE("[C03][C09]", "trylocksix-upgrade-guard-version", " :: TryLockSIX succeeded with version %u but the upgraded XGuard reports %u", carried, acquired);
                  }
                  write_payload(L, 0);
                  if (op.a & 2) {
                    SIXG six2 = downgrade(L, x, acquired, op.c);
                    check_version_quiescent(L, "DowngradeToSIX");
                    read_payload_locked(L, 0, kSIX, true);
                    sx_pre_release(L, kSIX, "release SIX");
                    converted_to_six = true;
                  } else {
                    x_pre_release(L, x, acquired, op.c);
                  }
                } else {
                  sx_pre_release(L, kSIX, "release SIX");
                }
              } else {
                expect_bool(g, false, "failed-TryLockSIX-result");
                dsim::op_begin("destroy empty guard", L.idx);
              }
            }
            if (converted && !converted_to_six) x_post_release(L); else sx_post_release(L);
            break;
          }
          default: {  // kOptTryX
            L.outstanding++;
            CallInfo ci = pre_call(L, "TryLockX", kNone);
            {
              XG g = og.TryLockX();
              ok = static_cast<bool>(g);
              const uint64_t grant_seq = dsim::watched_write_seq();
              if (!ok && grant_seq != 0) suspect("[C03]");
              if (ok) granted(L, ci, kX, fTry, "TryLockX", false); else post_call();
              check_validation(L, ci, ok, carried, og.GetVersion(), rel_inv_at_obtain, &rd, "TryLockX", true, grant_seq);
              if (ok) {
                const uint32_t acquired = x_begin_version(L, g);
                if (acquired != carried) {
                  ORACLE("[C03][C09]", "trylockx-guard-version", " :: TryLockX succeeded with version %u but the XGuard reports %u", carried, acquired);
                }
                const bool early = early_set_version(L, g, acquired, op);
                Slots<XG> s;
                manipulate(L, g, s, static_cast<int>(op.b));
                check_guard_version_after_moves(*s.cur, acquired);
                write_payload(L, 0);
                x_pre_release(L, *s.cur, acquired, op.c, early);
              } else {
                expect_bool(g, false, "failed-TryLockX-result");
                dsim::op_begin("destroy empty guard", L.idx);
              }
            }
            if (ok) x_post_release(L); else sx_post_release(L);
            break;
          }
        }
        if (op.kind != kOptVerify) dsim::probe(ok ? pTrySucceeded : pTryFailed);
        check_version_quiescent(L, "optimistic operation");
        if (ok) break;
        rel_inv_at_obtain = L.rel_inv;
      }
    } else {
      (void)L;
      (void)op;
    }
  }

  void prep_section(LS &L, const Op &op)
  {
    if constexpr (A::kOpt) {
      using CG = OptimisticLock::CompositeGuard;
      bool owning = false;
      L.outstanding++;
      CallInfo ci = pre_call(L, "PrepareRead", kNone);
      {
        CG cg = L.lock->PrepareRead();
        owning = static_cast<bool>(cg);
        uint64_t rel_inv_at_obtain = 0;
        if (owning) {
          if (ci.others_at_inv && others_registered(L) && L.reg_epoch == ci.reg_epoch_at_inv) {
            ORACLE("[C13]", "prepare-read-stacked-shared-grant", " :: PrepareRead of vt%d took a shared grant on lock %d although other holders were registered during the whole call",
                   dsim::self(), L.idx);
          }
          if (ci.x_at_inv && L.x_holder >= 0 && L.x_epoch == ci.x_epoch_at_inv) {
            ORACLE("[C13]", "PrepareRead-returned-during-x", " :: PrepareRead of vt%d returned an owning guard while vt%d held X on lock %d", dsim::self(),
                   L.x_holder, L.idx);
          }
          {
            // the shared grant must have been taken at an instant when the lock was completely free: no other ghost grant
            // (each contained in a real grant) may cover the event that took it
            // (every write of the call to the lock object is looked at: whichever of them took the grant, it must not be covered)
            uint64_t ws[8];
            const int nw = dsim::watched_write_seqs(ws, 8);
            int holder = nw > 0 ? 0 : -1;
            for (int i = 0; i < nw && holder >= 0; ++i) holder = other_holder_at(L, ws[i]);
            if (holder >= 0) {
              ORACLE("[C13]", "prepare-read-stacked-shared-grant", " :: PrepareRead of vt%d took its shared grant on lock %d at event %lu while vt%d held a grant",
                     dsim::self(), L.idx, static_cast<unsigned long>(dsim::watched_write_seq()), holder);
            }
          }
          granted(L, ci, kS, fPrep, "PrepareRead", false);
          dsim::probe(pPrepFallbackS);
        } else {
          if (dsim::watched_write_seq() != 0) suspect("[C13]");
          post_call();
          check_sampled_version(L, ci, cg.GetVersion(), "PrepareRead", "[C13][C03]");
          dsim::probe(pPrepNonOwning);
          rel_inv_at_obtain = L.rel_inv;
        }
        // moves of the composite guard
        CG *cur = &cg;
        std::optional<CG> mc;
        CG other;
        expect_bool(other, false, "default-constructed-composite");
        if (op.b & kMoveCtor) {
          mc.emplace(std::move(*cur));
          expect_bool(*mc, owning, "move-constructed-composite-target");
          expect_bool(cg, false, "moved-from-composite");
          cur = &*mc;
          if (owning) L.flags[dsim::self()] |= fMoved;
        }
        if (op.b & kAssignEmpty) {
          other = std::move(*cur);
          expect_bool(other, owning, "move-assigned-composite-target");
          expect_bool(*cur, false, "move-assigned-composite-source");
          cur = &other;
          if (owning) L.flags[dsim::self()] |= fMoved;
        }
        OptRead rd;
        if (owning) {
          rd.a = rd.b = read_payload_locked(L, static_cast<int>(op.a), kS, false);
        } else {
          rd = read_payload_optimistic(L, static_cast<int>(op.a));
        }
        const uint32_t carried = cur->GetVersion();
        CallInfo cv = pre_call(L, "CompositeGuard::VerifyVersion", kNone);
        const bool ok = cur->VerifyVersion();
        post_call();
        if (owning) {
          if (!ok) ORACLE("[C13]", "verify-failed-on-owning-composite", " :: VerifyVersion of an owning composite guard returned false (vt%d, lock %d)", dsim::self(), L.idx);
          expect_bool(*cur, true, "owning-composite-after-verify");
        } else {
          check_validation(L, cv, ok, carried, cur->GetVersion(), rel_inv_at_obtain, &rd, "CompositeGuard::VerifyVersion", false);
          dsim::probe(ok ? pVerifyOk : pVerifyFailed);
          expect_bool(*cur, false, "non-owning-composite");
        }
        check_version_quiescent(L, "PrepareRead");
        if (owning) sx_pre_release(L, kS, "release composite S"); else dsim::op_begin("destroy non-owning composite", L.idx);
        if (op.b & kReleaseByAssign) {
          *cur = CG{};
          expect_bool(*cur, false, "assigned-empty-over-composite");
        }
      }
      sx_post_release(L);
      check_version_quiescent(L, "release composite");
    } else {
      (void)L;
      (void)op;
    }
  }

  // ---------------------------------------------------------------------------------------------
  void run_op(const Op &op)
  {
    LS &L = ls[op.obj < nlocks ? op.obj : 0];
    switch (op.kind) {
      case kSecS: sec_s(L, op); break;
      case kSecSIX: sec_six(L, op); break;
      case kSecX: sec_x(L, op); break;
      case kSecSIXUp: sec_six_up(L, op, false); break;
      case kSecSIXUpDown: sec_six_up(L, op, true); break;
      case kSecXDown: sec_x_down(L, op, false); break;
      case kSecXDownUp: sec_x_down(L, op, true); break;
      case kOptVerify:
      case kOptTryS:
      case kOptTrySIX:
      case kOptTryX: opt_section(L, op); break;
      case kPrepRead: prep_section(L, op); break;
      case kTwoLockAssign:
        if (op.b == 2) sec_two_lock_assign_sx<kS>(op);
        else if (op.b == 3) sec_two_lock_assign_sx<kSIX>(op);
        else sec_two_lock_assign(op);
        break;
      case kTwoLockCompositeAssign: sec_two_lock_composite_assign(op); break;
      case kHandOver:
        if (op.b % 3 == 0) sec_hand_over<kS>(L, op);
        else if (op.b % 3 == 1) sec_hand_over<kSIX>(L, op);
        else sec_hand_over<kX>(L, op);
        break;
      case kSelfMoveAssign:
        if (op.b % 3 == 0) sec_self_move<kS>(L, op);
        else if (op.b % 3 == 1 || A::kOpt) sec_self_move<kSIX>(L, op);  // X on OptimisticLock: the version timeline needs to know in
        else sec_self_move<kX>(L, op);                                  // advance whether a call publishes, so it is left out
        break;
      case kEmptyGuards: sec_empty(L, op); break;
      case kSamePairS: sec_same_pair_s(L, op); break;
      default: break;
    }
    dsim::probe(pSectionsDone);
  }

  struct WorkerArg {
    Runner *r;
    int tid;
  };
  static void worker_fn(void *p)
  {
    auto *w = static_cast<WorkerArg *>(p);
    const auto &ops = w->r->prog->threads[static_cast<size_t>(w->tid)];
    for (size_t i = 0; i < ops.size(); ++i) {
      dsim::set_pos(static_cast<int>(i) + 1);
      w->r->run_op(ops[i]);
    }
    dsim::set_pos(1000);
  }
  static void final_fn(void *p)
  {
    auto *r = static_cast<Runner *>(p);
    for (int i = 0; i < r->nlocks; ++i) {
      LS &L = r->ls[i];
      {
        L.outstanding++;
        CallInfo ci = r->pre_call(L, "final LockX", kX);
        XG g = L.lock->LockX();
        r->granted(L, ci, kX, 0, "final LockX", false);
        r->expect_bool(g, true, "LockX-result");
        const uint32_t acquired = r->x_begin_version(L, g);
        r->read_payload_locked(L, 0, kX, false);
        r->x_pre_release(L, g, acquired, 0);
      }
      r->x_post_release(L);
      dsim::probe(pFinalLockX);
    }
  }

  void check_fifo()
  {
    if constexpr (A::kMcs) {
      for (int i = 0; i < nlocks; ++i) {
        auto &rq = ls[i].reqs;
        for (size_t x = 0; x < rq.size(); ++x) {
          for (size_t y = 0; y < rq.size(); ++y) {
            if (x == y || !conflicts(rq[x].mode, rq[y].mode) || rq[x].vt == rq[y].vt) continue;
            if (rq[x].arrival == 0 || rq[y].arrival == 0) continue;
            if (rq[x].arrival < rq[y].arrival && !(rq[x].grant < rq[y].grant)) {
              ORACLE("[C11]", "overtaken", " :: on lock %d the %s request of vt%d (arrival %lu, granted %lu) was overtaken by the %s request of vt%d (arrival %lu, granted %lu)",
                     i, kModeName[rq[x].mode], rq[x].vt, static_cast<unsigned long>(rq[x].arrival), static_cast<unsigned long>(rq[x].grant),
                     kModeName[rq[y].mode], rq[y].vt, static_cast<unsigned long>(rq[y].arrival), static_cast<unsigned long>(rq[y].grant));
            }
          }
        }
      }
    }
  }

  void main_body(const Program &p)
  {
    prog = &p;
    nlocks = static_cast<int>(p.params.size() > 0 ? p.params[0] : 1);
    if (nlocks < 1) nlocks = 1;
    if (nlocks > 2) nlocks = 2;
    sh.fresh = true;
    for (auto &t : p.threads)
      for (auto &o : t)
        if (o.c < 0) sh.fresh = false;
    for (int i = 0; i < nlocks; ++i) {
      LS &L = ls[i];
      L.idx = i;
      L.lock = new Lock{};
      uint32_t start = 0;
      if constexpr (A::kOpt) {
        start = static_cast<uint32_t>(p.params.size() > static_cast<size_t>(1 + i) ? p.params[static_cast<size_t>(1 + i)] : 0);
        if (start != 0) {
          auto x = L.lock->LockX();
          x.SetVersion(start);
        }
      }
      L.pubs.push_back(Pub{start, 0, 0, 0});
    }
    const int n = static_cast<int>(p.threads.size());
    std::vector<WorkerArg> args(static_cast<size_t>(n));
    std::vector<int> ids(static_cast<size_t>(n));
    sh.alive = n;
    for (int t = 0; t < n; ++t) {
      args[static_cast<size_t>(t)] = WorkerArg{this, t};
      ids[static_cast<size_t>(t)] = dsim::spawn(worker_fn, &args[static_cast<size_t>(t)], "worker");
    }
    for (int t = 0; t < n; ++t) {
      dsim::join(ids[static_cast<size_t>(t)]);
      sh.alive--;
    }
    check_fifo();
    // C02(b): after the last guard is gone a fresh exclusive request succeeds without waiting
    set_phase("final");
    sh.alive = 1;
    const int f = dsim::spawn(final_fn, this, "finalizer");
    dsim::join(f);
    sh.alive = 0;
    set_phase("teardown");
    if constexpr (A::kMcs) {
      const size_t live = dsim::heap_live(kTagMcs);
      if (live != 0) {
        ORACLE("[C12]", "node-leak", " :: %zu queue node(s) still allocated after all guards were released and all threads exited (%zu allocated in total)",
               live, dsim::heap_total_allocs(kTagMcs));
      }
      if (dsim::heap_total_allocs(kTagMcs) < static_cast<size_t>(p.total_ops())) dsim::probe(pNodeRecycled);
    }
    for (int i = 0; i < nlocks; ++i) {
      check_version_quiescent(ls[i], "the end of the run");
      delete ls[i].lock;
    }
  }
};

struct PessA {
  using Lock = PessimisticLock;
  static constexpr bool kOpt = false, kMcs = false;
  static const char *name() { return "pessimistic"; }
};
struct OptA {
  using Lock = OptimisticLock;
  static constexpr bool kOpt = true, kMcs = false;
  static const char *name() { return "optimistic"; }
};
struct McsA {
  using Lock = MCSLock;
  static constexpr bool kOpt = false, kMcs = true;
  static const char *name() { return "mcs"; }
};

template <class A>
void run_family(const Program &p)
{
  auto *r = new Runner<A>();
  r->main_body(p);
  delete r;
}

void entry(void *)
{
  const Program &p = current_program();
  g_suspect_tags.clear();
  g_suspect_note = "";
  switch (p.family) {
    case 0: run_family<PessA>(p); break;
    case 1: run_family<OptA>(p); break;
    default: run_family<McsA>(p); break;
  }
}

// ---- generator -----------------------------------------------------------------------------------
struct Weights {
  int w[kKinds];
};

void generate(Program &prog, dsim::Config &cfg, dsim::Rng &pr, dsim::Rng &cr, int family, int profile)
{
  const bool opt = family == 1;
  Weights W{};
  auto set = [&](std::initializer_list<std::pair<int, int>> l) {
    for (auto &kv : l) W.w[kv.first] = kv.second;
  };
  int min_thr = 2, max_thr = 4, max_ops = 5, manip_percent = 15;
  bool two_locks = pr.chance(1, 3);
  bool manipulator = false;
  bool pair_mode = false;  // thread 0 also holds two S grants of lock 0 at a time; every other thread requests only S on lock 0
  switch (profile) {
    case kHandoff:
      set({{kSecS, 5}, {kSecSIX, 3}, {kSecX, 6}, {kSecSIXUp, 2}, {kSecXDown, 2}, {kSecXDownUp, 1}, {kSecSIXUpDown, 1}});
      max_ops = 4;
      manip_percent = 5;
      break;
    case kOptimistic:
      set({{kSecS, 1}, {kSecSIX, 1}, {kSecX, 5}, {kSecSIXUp, 2}, {kSecXDown, 2}, {kOptVerify, 5}, {kOptTryS, 2}, {kOptTrySIX, 2}, {kOptTryX, 3},
           {kPrepRead, 2}});
      break;
    case kRepublish:
      set({{kSecX, 5}, {kSecXDown, 2}, {kSecS, 1}, {kOptVerify, 4}, {kOptTryS, 2}, {kOptTrySIX, 1}, {kOptTryX, 3}, {kPrepRead, 1}});
      break;
    case kGuards:
      set({{kSecS, 3}, {kSecSIX, 3}, {kSecX, 3}, {kSecSIXUp, 3}, {kSecXDown, 3}, {kSecXDownUp, 1}, {kSecSIXUpDown, 1}, {kEmptyGuards, 2},
           {kTwoLockAssign, 0}, {kSelfMoveAssign, 2}, {kHandOver, 2}});
      if (opt) set({{kOptTryS, 1}, {kOptTrySIX, 1}, {kOptTryX, 2}, {kPrepRead, 3}});
      manip_percent = 75;
      manipulator = pr.chance(1, 2);
      pair_mode = !manipulator && pr.chance(1, 2);
      if (manipulator) two_locks = true;
      min_thr = 1;
      max_thr = 3;
      break;
    case kConvert:
      set({{kSecS, 4}, {kSecSIX, 2}, {kSecX, 2}, {kSecSIXUp, 5}, {kSecXDown, 4}, {kSecXDownUp, 4}, {kSecSIXUpDown, 4}});
      if (opt) set({{kOptTryS, 1}, {kOptTrySIX, 1}, {kPrepRead, 1}});
      break;
    case kFifo:
      set({{kSecS, 5}, {kSecSIX, 3}, {kSecX, 5}});
      min_thr = 3;
      max_thr = 5;
      max_ops = 3;
      two_locks = false;
      manip_percent = 0;
      break;
    case kNodes:
      set({{kSecS, 6}, {kSecSIX, 3}, {kSecX, 4}, {kSecSIXUp, 2}, {kSecXDown, 2}, {kSecXDownUp, 1}, {kHandOver, 1}});
      two_locks = pr.chance(1, 2);
      min_thr = 2;
      max_thr = 4;
      break;
    case kPrepare:
      set({{kSecX, 6}, {kSecXDown, 1}, {kSecS, 1}, {kSecSIX, 1}, {kPrepRead, 8}, {kOptVerify, 1}});
      max_ops = 4;
      break;
    case kHb:
      set({{kSecS, 4}, {kSecSIX, 3}, {kSecX, 4}, {kSecSIXUp, 3}, {kSecXDown, 3}, {kSecXDownUp, 2}, {kSecSIXUpDown, 2}});
      if (opt) set({{kOptTryS, 2}, {kOptTrySIX, 2}, {kOptTryX, 2}, {kPrepRead, 2}});
      break;
    default:
      set({{kSecS, 4}, {kSecSIX, 3}, {kSecX, 4}, {kSecSIXUp, 2}, {kSecXDown, 2}, {kSecXDownUp, 1}, {kSecSIXUpDown, 1}, {kEmptyGuards, 1}});
      if (opt) set({{kOptVerify, 2}, {kOptTryS, 1}, {kOptTrySIX, 1}, {kOptTryX, 2}, {kPrepRead, 2}});
      break;
  }
  size_t budget = 24;
  if (scale() >= 2) {  // deep hunts (VERIF_SCALE=2): every program is large
    max_thr += 2;
    max_ops += 4;
    budget = 48;
  } else if (scale() >= 1 && pr.chance(1, 3)) {  // thorough tier: a third of the programs are larger
    max_thr += 1;
    max_ops += 3;
    budget = 36;
  }
  if (!opt)
    for (int k : {kOptVerify, kOptTryS, kOptTrySIX, kOptTryX, kPrepRead}) W.w[k] = 0;
  int total_w = 0;
  for (int k = 0; k < kKinds; ++k) total_w += W.w[k];
  const int nthr = min_thr + static_cast<int>(pr.below(static_cast<uint64_t>(max_thr - min_thr + 1)));
  const int nlocks = two_locks ? 2 : 1;
  prog.params.clear();
  prog.params.push_back(nlocks);
  for (int i = 0; i < nlocks; ++i) {
    int64_t start = 0;
    if (opt) {
      switch (pr.below(6)) {
        case 0: start = 0xFFFFFFFFLL; break;
        case 1: start = 0xFFFFFFFELL; break;
        case 2: start = static_cast<int64_t>(pr.next() & 0xFFFFFFFFULL); break;
        case 3: start = 0xFFFFFFFFLL - static_cast<int64_t>(pr.below(6)); break;
        default: start = 0; break;
      }
    }
    prog.params.push_back(start);
  }
  prog.threads.assign(static_cast<size_t>(nthr), {});
  for (int t = 0; t < nthr; ++t) {
    const bool is_manip = manipulator && t == 0;
    const int home = static_cast<int>(pr.below(static_cast<uint64_t>(nlocks)));
    int nops = 1 + static_cast<int>(pr.below(static_cast<uint64_t>(max_ops)));
    if (profile == kFifo && t == 0) nops = 1;
    for (int i = 0; i < nops && budget > 0; ++i, --budget) {
      Op o;
      int x = static_cast<int>(pr.below(static_cast<uint64_t>(total_w)));
      for (int k = 0; k < kKinds; ++k) {
        if (x < W.w[k]) {
          o.kind = k;
          break;
        }
        x -= W.w[k];
      }
      if (is_manip && pr.chance(1, 2)) o.kind = (opt && pr.chance(1, 3)) ? kTwoLockCompositeAssign : kTwoLockAssign;
      const bool pair_op = pair_mode && t == 0 && pr.chance(1, 2);
      // threads of a program with a manipulator stay on one lock for their whole life (DESIGN section 4)
      o.obj = (manipulator && !is_manip) ? home : static_cast<int>(pr.below(static_cast<uint64_t>(nlocks)));
      o.a = static_cast<int64_t>(pr.below(3));
      if (pair_op) {
        o.kind = kSamePairS;
        o.obj = 0;
      } else if (pair_mode && t != 0 && o.obj == 0) {
        o.kind = kSecS;
      }
      if (profile == kFifo && t == 0) o.a = 3;
      if (profile == kPrepare && (o.kind == kSecX || o.kind == kSecXDown)) o.a = 2 + static_cast<int64_t>(pr.below(2));
      o.b = 0;
      if (pr.below(100) < static_cast<uint64_t>(manip_percent)) o.b = static_cast<int64_t>(pr.below(32));
      if (o.kind == kTwoLockAssign) o.b = static_cast<int64_t>(pr.below(4));  // 0, 1: X guards; 2: S guards; 3: SIX guards
      o.c = 0;
      if (opt) {
        if (profile == kRepublish) {
          if (pr.chance(2, 3)) o.c = -1 - static_cast<int64_t>(pr.below(5));
        } else if (pr.chance(1, 3)) {
          o.c = 1 + static_cast<int64_t>(pr.below(pr.chance(1, 4) ? 1000 : 5));
        }
      }
      prog.threads[static_cast<size_t>(t)].push_back(o);
    }
  }
  // configuration (swarm): strategy, faults
  const uint64_t s = cr.below(100);
  const bool handoffish = profile == kHandoff || profile == kFifo || profile == kNodes;
  if (s < (handoffish ? 20u : 35u)) cfg.strategy = dsim::kRandom;
  else if (s < (handoffish ? 40u : 60u)) cfg.strategy = dsim::kSticky;
  else if (s < (handoffish ? 75u : 85u)) cfg.strategy = dsim::kPCT;
  else cfg.strategy = dsim::kStall;
  cfg.pct_depth = 1 + static_cast<int>(cr.below(3));
  cfg.pct_len = 20 + static_cast<int>(prog.total_ops()) * 14;
  cfg.sticky_percent = 50 + static_cast<int>(cr.below(45));
  if (cfg.strategy == dsim::kStall) {
    cfg.stall_permille = 10 + static_cast<int>(cr.below(40));
    cfg.stall_max = 50 + static_cast<int>(cr.below(1950));
  }
  static const int kSpur[] = {0, 0, 50, 300};
  cfg.cas_spurious_permille = kSpur[cr.below(4)];
  cfg.oversleep_permille = cr.chance(1, 3) ? 200 : 0;
  cfg.eintr_permille = cr.chance(1, 3) ? 150 : 0;
  cfg.spin_bound = 2 * CPP_UTILITY_SPINLOCK_RETRY_NUM + 8;
  if (CPP_UTILITY_SPINLOCK_RETRY_NUM == 0) {
    // retry number 0: every failed attempt sleeps, so a waiting thread's loop is "load, sleep".  Sleep-length faults (oversleep by up to
    // 10^4, EINTR) then let one thread sit out the whole step budget of a deadlock verdict's grace phase while it is not blocked at all
    // (false deadlock verdicts at the thorough tier, seed 909); this build explores schedules and spurious CAS failures only
    cfg.oversleep_permille = 0;
    cfg.eintr_permille = 0;
  }
  cfg.max_steps = 200000;
  cfg.tso = profile != kHb && cr.chance(1, 5);  // x86-TSO store buffers inside API calls; never for C08's happens-before runs
  static const int kDrain[] = {1, 5, 25};
  cfg.tso_drain_percent = kDrain[cr.below(3)];
  cfg.weak_stores = cr.chance(1, 2);  // half of the buffered runs: only release-class operations drain the buffer
}

std::string render(const Program &p)
{
  static const char *fams[] = {"PessimisticLock", "OptimisticLock", "MCSLock"};
  std::string s = std::string(fams[p.family % 3]) + " profile " + std::to_string(p.profile) + ", locks " +
                  std::to_string(p.params.empty() ? 1 : p.params[0]);
  if (p.family == 1) {
    s += ", start versions";
    for (size_t i = 1; i < p.params.size(); ++i) s += " " + std::to_string(p.params[i]);
  }
  s += "\n";
  for (size_t t = 0; t < p.threads.size(); ++t) {
    s += "  T" + std::to_string(t + 1) + ":";
    for (auto &o : p.threads[t]) {
      s += " " + std::string(o.kind >= 0 && o.kind < kKinds ? kKindName[o.kind] : "?") + "(L" + std::to_string(o.obj);
      if (o.a) s += ",yields=" + std::to_string(o.a);
      if (o.kind == kTwoLockAssign) s += o.b == 2 ? ",S guards" : (o.b == 3 ? ",SIX guards" : ",X guards");
      else if (o.b) s += ",moves=" + std::to_string(o.b);
      if (o.c > 0) s += ",SetVersion=+" + std::to_string(o.c);
      if (o.c < 0) s += ",SetVersion=republish" + std::to_string(-o.c);
      s += ");";
    }
    s += "\n";
  }
  return s;
}

std::string tags_for_runtime_class(const Program &p, const char *cls)
{
  const std::string c = cls;
  if (c.rfind("deadlock", 0) == 0) {
    if (!g_suspect_tags.empty()) {
      return (std::string(phase()) == "final" ? "[C02][C07]" : "[C02]") + g_suspect_tags + " " + g_suspect_note;
    }
    if (std::string(phase()) == "final") {
      bool setver = false;
      for (auto &t : p.threads)
        for (auto &o : t)
          if (o.c != 0) setver = true;
      for (size_t i = 1; i < p.params.size(); ++i)
        if (p.params[i] != 0) setver = true;
      return (p.family == 1 && setver) ? "[C02][C07][C09] final-lockx" : "[C02][C07] final-lockx";
    }
    return "[C02]";
  }
  if (c.rfind("heap/", 0) == 0) return c.find("tag1") != std::string::npos ? "[C12]" : "[harness]";
  // an API call the oracle makes on a lock nobody holds exclusively (GetVersion, in observer scope) did not return: either the lock word
  // shows a holder the ownership model does not know (C01/C09) or the call waits for something it need not wait for (C02)
  if (c.rfind("observer/", 0) == 0) return "[C02][C09][C01]";
  if (c.rfind("crash/", 0) == 0) return p.family == 2 ? "[C02][C12]" : "[C02]";
  return "[inconclusive]";
}

void process_init()
{
  const char *e = getenv("VERIF_PROP");
  g_prop = e ? std::string("[") + e + "]" : "";
}

}  // namespace

const Scenario kLocksScenario = {"locks", generate, entry, render, tags_for_runtime_class, kProbeNames, process_init};

}  // namespace sim
