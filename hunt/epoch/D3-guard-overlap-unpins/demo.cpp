// Demonstration (single coordinator/worker, fully sequential, no instrumentation):
// all guards of one thread share the single slot Epoch::entered_, and neither
// EpochGuard::operator=(EpochGuard&&) nor ~EpochGuard() knows about other live guards
// on the same slot.  Consequently a LIVE, OWNING guard can silently stop pinning.
//
//  case 1: refreshing a guard by move assignment        g = mgr.CreateEpochGuard();
//  case 2: GetProtectedEpochs() called while the thread already holds a guard
//  case 3: a guard that outlives its thread's ID registration (destroyed during/after
//          thread exit) wipes the pin of the thread that REUSES the ID

#include <atomic>
#include <cstdio>
#include <limits>
#include <optional>
#include <thread>
#include <vector>

#include "dbgroup/thread/epoch_manager.hpp"
#include "dbgroup/thread/id_manager.hpp"

using dbgroup::thread::EpochGuard;
using dbgroup::thread::EpochManager;
using dbgroup::thread::IDManager;
using dbgroup::thread::kMaxThreadNum;

namespace
{
int violations = 0;

auto
Contains(const std::vector<size_t> &v, size_t x) -> bool
{
  for (const auto e : v) {
    if (e == x) return true;
  }
  return false;
}

void
Check(EpochManager &mgr, const char *what, size_t pinned_at, const EpochGuard &guard)
{
  // C04: the guard was completely created before this call and is alive afterwards
  mgr.ForwardGlobalEpoch();
  mgr.ForwardGlobalEpoch();
  const auto reported = guard.GetProtectedEpoch();
  std::vector<size_t> list{};
  {
    // read the list published for the current epoch from a helper thread (own ID, own slot)
    std::thread t{[&] {
      const auto &[g, l] = mgr.GetProtectedEpochs();
      list = l;
    }};
    t.join();
  }
  std::printf("%s: guard pinned epoch %zu; now reports %zu; current epoch %zu; min epoch %zu; list = {", what, pinned_at,
              reported, mgr.GetCurrentEpoch(), mgr.GetMinEpoch());
  for (const auto e : list) std::printf(" %zu", e);
  std::printf(" }\n");
  if (!Contains(list, reported) || mgr.GetMinEpoch() > pinned_at) {
    std::printf("  VIOLATION (C04): a live guard does not pin: reported epoch in list = %d, min epoch (%zu) > pinned epoch (%zu) = %d\n",
                static_cast<int>(Contains(list, reported)), mgr.GetMinEpoch(), pinned_at,
                static_cast<int>(mgr.GetMinEpoch() > pinned_at));
    ++violations;
  }
}
}  // namespace

// ---- case 3 helpers: thread_local objects are destroyed in reverse order of construction ----
namespace
{
std::atomic<int> stage{0};
struct Staller {
  ~Staller()
  {
    if (stage.load() != 1) return;
    stage.store(2);  // A's HeartBeater is already destroyed: ID released, heartbeat expired
    while (stage.load() != 3) std::this_thread::yield();
  }
};
}  // namespace

auto
main() -> int
{
  std::setvbuf(stdout, nullptr, _IONBF, 0);
  std::thread cases12{[] {
  {  // ------------------------------------------------------------------ case 1
    EpochManager mgr{};
    auto g = mgr.CreateEpochGuard();
    mgr.ForwardGlobalEpoch();
    g = mgr.CreateEpochGuard();  // "refresh": the new guard enters (entered_=257), THEN the old one leaves (entered_=max)
    Check(mgr, "case 1 (g = mgr.CreateEpochGuard())", 257, g);
  }
  {  // ------------------------------------------------------------------ case 2
    EpochManager mgr{};
    const auto g = mgr.CreateEpochGuard();
    {
      const auto &[inner, list] = mgr.GetProtectedEpochs();
      (void)list;
    }  // ~inner : entered_ = max although g is alive
    Check(mgr, "case 2 (GetProtectedEpochs under a guard)", 256, g);
  }
  }};
  cases12.join();  // (the main thread itself never takes a thread ID)
  {  // ------------------------------------------------------------------ case 3
    EpochManager mgr{};
    // park threads on all IDs but one so that B must reuse A's ID
    std::atomic<bool> release{false};
    std::atomic<size_t> ready{0};
    std::vector<std::thread> parked{};
    for (size_t i = 0; i + 1 < kMaxThreadNum; ++i) {
      parked.emplace_back([&] {
        [[maybe_unused]] const auto id = IDManager::GetThreadID();
        ++ready;
        while (!release.load()) std::this_thread::yield();
      });
    }
    while (ready.load() + 1 < kMaxThreadNum) std::this_thread::yield();

    std::thread a{[&] {
      thread_local std::optional<EpochGuard> long_lived{};  // constructed first  -> destroyed last
      thread_local Staller staller{};                       // constructed second -> destroyed second
      long_lived.reset();
      (void)&staller;
      long_lived.emplace(mgr.CreateEpochGuard());  // IDManager's thread_local HeartBeater constructed third -> destroyed FIRST
      stage.store(1);
    }};
    while (stage.load() != 2) std::this_thread::yield();  // A is exiting: ID free, heartbeat expired, guard object still alive

    std::atomic<int> b_stage{0};
    std::thread b{[&] {
      const auto g = mgr.CreateEpochGuard();  // B reuses A's ID and slot, re-registers the heartbeat, pins 256
      b_stage.store(1);
      while (b_stage.load() != 2) std::this_thread::yield();
      Check(mgr, "case 3 (guard of exited thread destroyed after ID reuse)", 256, g);
      b_stage.store(3);
    }};
    while (b_stage.load() != 1) std::this_thread::yield();
    stage.store(3);  // A continues its exit: ~EpochGuard -> LeaveEpoch on the slot that now belongs to B
    a.join();
    release.store(true);  // free the other IDs (the helper thread in Check needs one)
    for (auto &&t : parked) t.join();
    b_stage.store(2);
    b.join();
  }
  std::printf("violations: %d\n", violations);
  return violations > 0 ? 1 : 0;
}
