// C06: ApproxZipfDistribution must return the inverse-CDF image of u.  Its CDF, however, is pieced
// together from two differently normalised parts (table for bins 0..99, closed form from bin 100 on) and
// DECREASES from bin 99 to bin 100 for large n and alpha around 1.  For u in the overlap the generator
// returns a bin > 100 although a bin <= 99 already has GetCDF >= u.
#include <cmath>
#include <cstdint>
#include <cstdio>
#include <random>

#include "dbgroup/random/zipf.hpp"

using dbgroup::random::ApproxZipfDistribution;

struct ScriptedEngine {  // a 64-bit URBG that returns what we tell it to
  using result_type = uint64_t;
  static constexpr auto min() -> uint64_t { return 0; }
  static constexpr auto max() -> uint64_t { return ~0ULL; }
  uint64_t next;
  auto operator()() -> uint64_t { return next; }
};

static auto
ToEngineOutput(const double u) -> uint64_t
{
  return static_cast<uint64_t>(static_cast<long double>(u) * 18446744073709551616.0L);
}

template <class T>
static auto
Check(const T min, const uint64_t n, const double alpha) -> bool
{
  const ApproxZipfDistribution<T> d{min, static_cast<T>(min + static_cast<T>(n - 1)), alpha};
  const auto c99 = d.GetCDF(99);
  const auto c100 = d.GetCDF(100);
  std::printf("n=%llu alpha=%g: GetCDF(99)=%.6f GetCDF(100)=%.6f %s\n", (unsigned long long)n, alpha, c99, c100,
              c100 < c99 ? "<-- CDF decreases" : "");
  if (!(c100 < c99)) return false;

  // sweep u through the overlap (GetCDF(100), GetCDF(99)]
  bool violated = false;
  size_t wrong = 0;
  size_t total = 0;
  T example_v = 0;
  double example_u = 0;
  for (int i = 1; i < 200; ++i) {
    const auto u_target = c100 + (c99 - c100) * i / 200.0;
    ScriptedEngine probe{ToEngineOutput(u_target)};
    ScriptedEngine copy = probe;
    std::uniform_real_distribution<double> ud{0.0, 1.0};
    const auto u = ud(copy);  // the variate the generator will draw from this engine state
    const auto v = d(probe);
    const auto k = static_cast<uint64_t>(v - min);
    // the inverse-CDF image of u is the FIRST bin whose CDF reaches u
    uint64_t first = 0;
    while (d.GetCDF(static_cast<T>(first)) < u) ++first;
    ++total;
    if (k != first) {
      if (wrong++ == 0) {
        example_v = v;
        example_u = u;
      }
      violated = true;
    }
  }
  if (violated) {
    const auto k = static_cast<uint64_t>(example_v - min);
    uint64_t first = 0;
    while (d.GetCDF(static_cast<T>(first)) < example_u) ++first;
    std::printf("  %zu of %zu probes in the overlap are not mapped to the first bin with CDF >= u, e.g.\n", wrong, total);
    std::printf("  u=%.9f -> v=min+%llu, but already GetCDF(%llu)=%.9f >= u  (GetCDF(%llu)=%.9f)\n", example_u,
                (unsigned long long)k, (unsigned long long)first, d.GetCDF(static_cast<T>(first)), (unsigned long long)k,
                d.GetCDF(static_cast<T>(k)));
  }

  return violated;
}

int
main()
{
  bool violated = false;
  violated |= Check<uint64_t>(0, 1000000, 1.0);
  violated |= Check<int32_t>(-1000, 1000000, 1.05);
  violated |= Check<uint32_t>(10, 100000, 1.0);
  violated |= Check<int64_t>(0, 3000000, 0.9);
  return violated ? 1 : 0;
}
