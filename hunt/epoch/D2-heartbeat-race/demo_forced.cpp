// Demonstration (no library instrumentation at all): TLSEpoch::heartbeat is a plain
// std::weak_ptr that is WRITTEN by worker threads in EpochManager::CreateEpochGuard()
// (lazy registration: `tls.heartbeat = IDManager::GetHeartBeat()`) and READ by the
// coordinator in CollectProtectedEpochs() (`tls.heartbeat.expired()`) without any
// synchronisation.
//
// With thread-ID reuse the old weak_ptr is the last reference to the control block of the
// exited thread's heartbeat.  libstdc++'s weak_ptr move assignment first releases (frees)
// that control block and only afterwards stores the new control-block pointer, so a
// coordinator that scans in between dereferences a dangling pointer.
//
// The interleaving is forced from OUTSIDE the library: the demo replaces the global
// operator delete; when the worker frees the old control block inside CreateEpochGuard()
// the replacement blocks the worker until the coordinator has run ForwardGlobalEpoch() once.

#include <atomic>
#include <condition_variable>
#include <cstdio>
#include <cstdlib>
#include <mutex>
#include <new>
#include <thread>
#include <vector>

#include "dbgroup/thread/epoch_manager.hpp"
#include "dbgroup/thread/id_manager.hpp"

using dbgroup::thread::EpochManager;
using dbgroup::thread::IDManager;
using dbgroup::thread::kMaxThreadNum;

namespace
{
std::atomic<int> stage{0};  // 1: control block freed, worker stalls; 2: coordinator done
thread_local bool armed = false;
void *freed_block = nullptr;

void
Hook(void *p)
{
  if (!armed) return;
  armed = false;
  freed_block = p;
  stage.store(1);
  while (stage.load() != 2) std::this_thread::yield();
}
}  // namespace

void *
operator new(std::size_t size)
{
  void *p = std::malloc(size == 0 ? 1 : size);
  if (p == nullptr) throw std::bad_alloc{};
  return p;
}

void
operator delete(void *p) noexcept
{
  std::free(p);
  Hook(p);
}

void
operator delete(void *p, std::size_t) noexcept
{
  std::free(p);
  Hook(p);
}

auto
main() -> int
{
  EpochManager mgr{};
  std::mutex mtx{};
  std::condition_variable cv{};
  bool release = false;
  std::atomic<size_t> ready{0};

  // occupy all IDs but one with parked threads, so that the ID of thread A is reused by B
  std::vector<std::thread> parked{};
  for (size_t i = 0; i + 1 < kMaxThreadNum; ++i) {
    parked.emplace_back([&] {
      [[maybe_unused]] const auto id = IDManager::GetThreadID();
      ++ready;
      std::unique_lock lock{mtx};
      cv.wait(lock, [&] { return release; });
    });
  }
  while (ready.load() + 1 < kMaxThreadNum) std::this_thread::yield();

  size_t id_a = 0;
  size_t id_b = 0;
  std::thread a{[&] {
    id_a = IDManager::GetThreadID();
    [[maybe_unused]] const auto guard = mgr.CreateEpochGuard();  // registers A's heartbeat in tls_fields_[id_a]
  }};
  a.join();  // A has exited: its heartbeat is expired, tls_fields_[id_a].heartbeat is the last weak reference
  mgr.ForwardGlobalEpoch();

  std::thread b{[&] {
    id_b = IDManager::GetThreadID();
    armed = true;
    [[maybe_unused]] const auto guard = mgr.CreateEpochGuard();  // re-registration frees A's control block
    armed = false;
  }};

  while (stage.load() != 1) std::this_thread::yield();
  std::printf("thread B (id %zu, A had id %zu) freed the old heartbeat control block %p inside CreateEpochGuard and is stalled\n",
              id_b, id_a, freed_block);
  std::printf("coordinator: ForwardGlobalEpoch() now calls tls.heartbeat.expired() on the dangling control block\n");
  std::fflush(stdout);
  mgr.ForwardGlobalEpoch();  // <- heap-use-after-free (reported by ASan)
  stage.store(2);
  b.join();

  {
    const std::lock_guard lock{mtx};
    release = true;
  }
  cv.notify_all();
  for (auto &&t : parked) t.join();
  std::printf("done (the coordinator finished its scan; without a sanitizer a dangling read goes unnoticed)\n");
  return 0;
}
