#!/bin/bash
# exits non-zero iff ThreadSanitizer reports the race between the construction
# of a queue node (operator new in Lock*) and the successor's link RMW.
cd "$(dirname "$0")"
ROOT=${ROOT:-/tmp/mut/H1}
B=${BUILD:-/tmp/mut/H1-build/F1}
mkdir -p "$B"
g++ -std=c++20 -O1 -g -fsanitize=thread -I$ROOT/include \
  -DDBGROUP_MAX_THREAD_NUM=16 -DCPP_UTILITY_SPINLOCK_RETRY_NUM=10 -DCPP_UTILITY_BACKOFF_TIME=10 \
  -DCPP_UTILITY_HAS_SPINLOCK_HINT demo.cpp $ROOT/src/lock/mcs_lock.cpp -o $B/demo -lpthread 2>$B/build.log || { echo "build failed"; cat $B/build.log; exit 2; }
TSAN_OPTIONS="exitcode=0 history_size=4" $B/demo > $B/out.txt 2>&1
if grep -A3 "Atomic write of size 8" $B/out.txt | grep -q "MCSLock::LockX() .*mcs_lock.cpp:154" \
   && grep -A3 "Previous write of size 8" $B/out.txt | grep -q "MCSLock::LockX() .*mcs_lock.cpp:145"; then
  echo "VIOLATION SHOWN: successor's link RMW (mcs_lock.cpp:154) races with node construction (mcs_lock.cpp:145)"
  grep -A4 -E "Atomic write of size 8|Previous write of size 8" $B/out.txt | head -14
  exit 1
fi
echo "no race reported"; tail -5 $B/out.txt
exit 0
