#!/bin/bash
# exits non-zero iff a live guard is found not to pin its epoch (C04)
set -u
HERE="$(cd "$(dirname "$0")" && pwd)"
ROOT="$(cd "$HERE/../.." && pwd)"
B="${ROOT}-build-D3"
rm -rf "$B"; mkdir -p "$B"
g++ -std=c++20 -O1 -g -I$ROOT/include -DDBGROUP_MAX_THREAD_NUM=16 -DCPP_UTILITY_SPINLOCK_RETRY_NUM=10 -DCPP_UTILITY_BACKOFF_TIME=10 -DCPP_UTILITY_HAS_SPINLOCK_HINT \
    "$HERE/demo.cpp" $ROOT/src/thread/*.cpp $ROOT/src/thread/component/*.cpp -o "$B/demo" -lpthread || exit 99
timeout 120 "$B/demo"; rc=$?
rm -rf "$B"
exit $rc
