#!/bin/sh
# exits non-zero iff the violation shows
set -e
HERE=$(cd "$(dirname "$0")" && pwd)
ROOT=$(cd "$HERE/../.." && pwd)
B=${BUILD_DIR:-$(mktemp -d /tmp/mut/H3-build-XXXXXX)}
mkdir -p "$B"
g++ -std=c++20 -O1 -g -I"$ROOT/include" "$HERE/demo.cpp" "$ROOT"/src/random/zipf.cpp -o "$B/zipf_demo"
set +e
"$B/zipf_demo"
rc=$?
[ -z "$BUILD_DIR" ] && rm -rf "$B"
exit $rc
