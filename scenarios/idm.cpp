// IDManager scenarios: C05 (unique, in range, stable), C14 (capacity never lost), C15 (heartbeats).
// Capacity DBGROUP_MAX_THREAD_NUM is a build variant (N1, N2, N3, N4, N8).
#include <algorithm>
#include <memory>
#include <string>
#include <vector>

#include "common.hpp"
#include "dbgroup/thread/id_manager.hpp"

namespace sim
{
namespace
{
using dbgroup::thread::IDManager;
constexpr size_t kN = dbgroup::thread::kMaxThreadNum;
// the final round starts min(kN, 10) fresh threads (large capacities exist to exercise table packing, not to be filled)
constexpr size_t kFinal = kN < 10 ? kN : 10;

// the guarded hook in src/thread/id_manager.cpp asks us for the probe start
thread_local size_t tl_probe_hash = 0;
}  // namespace
}  // namespace sim

extern "C" size_t cpp_utility_verif_thread_hash() { return sim::tl_probe_hash; }

namespace sim
{
void set_probe_hash(size_t h) { tl_probe_hash = h; }

// ---- family 1: the process' main thread takes its ID before main() -------------------------------------------------------------
// A client may call GetThreadID from the constructor of a global object, i.e. before the dynamic initialisers of the library's own
// translation units have run; the ID must stay reserved for the main thread as long as it lives.  Worker processes started with
// `--scenario idm --family 1` (and replays of such runs) do exactly that, from an object with the earliest user init priority; every
// run of such a process then starts with one ID held by a thread that is not a vthread.
int g_early_id = -1;  // constant-initialised
namespace
{
bool file_has_lines(const char *path, const char *a, const char *b)
{
  FILE *f = fopen(path, "r");
  if (!f) return false;
  char line[4096];
  bool fa = false, fb = false;
  for (int i = 0; i < 40 && fgets(line, sizeof(line), f); ++i) {
    if (strncmp(line, a, strlen(a)) == 0 && (line[strlen(a)] == '\n' || line[strlen(a)] == '\0')) fa = true;
    if (strncmp(line, b, strlen(b)) == 0 && (line[strlen(b)] == '\n' || line[strlen(b)] == '\0')) fb = true;
  }
  fclose(f);
  return fa && fb;
}
bool cmdline_selects_early_claim()
{
  FILE *f = fopen("/proc/self/cmdline", "r");
  if (!f) return false;
  static char buf[16384];
  const size_t n = fread(buf, 1, sizeof(buf) - 1, f);
  fclose(f);
  buf[n] = '\0';
  const char *argv[128];
  int argc = 0;
  for (size_t i = 0; i < n && argc < 128;) {
    argv[argc++] = buf + i;
    i += strlen(buf + i) + 1;
  }
  if (argc < 2) return false;
  if (strcmp(argv[1], "explore") == 0) {
    bool idm = false, fam1 = false;
    for (int i = 2; i + 1 < argc; ++i) {
      if (strcmp(argv[i], "--scenario") == 0 && strcmp(argv[i + 1], "idm") == 0) idm = true;
      if (strcmp(argv[i], "--family") == 0 && strcmp(argv[i + 1], "1") == 0) fam1 = true;
    }
    return idm && fam1;
  }
  if ((strcmp(argv[1], "replay") == 0 || strcmp(argv[1], "minimise") == 0) && argc >= 3) return file_has_lines(argv[2], "scenario idm", "family 1");
  return false;
}
struct EarlyClaim {
  EarlyClaim()
  {
    if (cmdline_selects_early_claim()) g_early_id = static_cast<int>(dbgroup::thread::IDManager::GetThreadID());
  }
};
__attribute__((init_priority(101))) EarlyClaim g_early_claim;
}  // namespace

namespace
{
enum Profile : int { kTogether = 0, kWaves = 1, kExitRace = 2, kHandover = 3 };
// per thread: op[0] = {kind 0, obj = start delay (yields by main before spawning), a = probe hash, b = number of GetThreadID calls,
//                      c = hold yields}
enum Probe : int { pWrap = 0, pReusedId, pClaimDuringExit, pOversubscribedWait, pFinalRound, pHbChecks, pEarlyClaim, pHeartBeatFirst, pProbes };
const char *const kProbeNames[] = {"probe_wrapped_around_table", "id_reused_by_later_thread",
                                   "claim_while_previous_owner_in_exit_cleanup", "claimant_waited_for_an_exit", "final_full_capacity_rounds",
                                   "heartbeat_checks", "runs_with_an_id_claimed_by_main_before_main",
                                   "threads_whose_first_call_is_GetHeartBeat", nullptr};

std::string g_prop;
bool tagged(const char *tags) { return g_prop.empty() || strstr(tags, g_prop.c_str()) != nullptr; }

struct HbRec {
  std::weak_ptr<size_t> hb;
  int owner;
  size_t id;
};

struct State {
  const Program *prog = nullptr;
  int owner_of[kN];           // ghost: vthread in user code that holds the ID, -1 = none
  bool in_user[dsim::kMaxVT];  // vthread is between its first GetThreadID return and the end of its user code
  bool exiting[dsim::kMaxVT];  // user code ended, thread-exit cleanup may be running
  bool joined[dsim::kMaxVT];
  std::vector<HbRec> hbs;
  uint64_t other_events = 0;
  int holders = 0;             // vthreads that hold an ID and have not finished exiting (ghost upper bound)
  // final phase
  int arrived = 0;
  int final_ids[kN];
  int final_vt[kN];
  int final_n = 0;
};
constexpr int kMainThreadOwner = 999;  // ghost owner of the ID the main thread claimed before main() (family 1)
State *S = nullptr;

#define ORACLE(tags, cls, ...)                      \
  do {                                              \
    if (tagged(tags)) {                             \
      char _c[160];                                 \
      snprintf(_c, sizeof(_c), "%s %s", tags, cls); \
      dsim::fail(_c, __VA_ARGS__);                  \
    } else {                                        \
      S->other_events++;                            \
    }                                               \
  } while (0)

void check_heartbeats_alive(const char *when)
{
  dsim::Observer ob;
  for (auto &r : S->hbs) {
    dsim::probe(pHbChecks);
    if (S->in_user[r.owner] && r.hb.expired()) {
      ORACLE("[C15]", "heartbeat-expired-while-thread-running", " :: heartbeat of vt%d (ID %zu) is expired although the thread is still running (%s)",
             r.owner, r.id, when);
    }
    if (S->joined[r.owner] && !r.hb.expired()) {
      ORACLE("[C15]", "heartbeat-alive-after-thread-exit", " :: heartbeat of vt%d (ID %zu) is not expired although the thread has exited (%s)", r.owner,
             r.id, when);
    }
  }
}

size_t get_id_checked(int call_no, size_t first)
{
  const int me = dsim::self();
  bool oversub = S->holders >= static_cast<int>(kN);
  dsim::op_begin("GetThreadID", 0);
  const size_t id = IDManager::GetThreadID();
  dsim::op_end();
  if (id >= kN) {
    ORACLE("[C05]", "id-out-of-range", " :: GetThreadID of vt%d returned %zu, capacity is %zu", me, id, kN);
    return id;
  }
  if (call_no == 0) {
    if (oversub) dsim::probe(pOversubscribedWait);
    // C15: every heartbeat handed out to earlier owners of this ID must be expired by now
    {
      dsim::Observer ob;
      for (auto &r : S->hbs) {
        if (r.id == id && r.owner != me) {
          dsim::probe(pReusedId);
          if (S->exiting[r.owner] && !S->joined[r.owner] && !dsim::finished(r.owner)) dsim::probe(pClaimDuringExit);
          if (!r.hb.expired()) {
            ORACLE("[C15]", "id-reused-before-heartbeat-expired",
                   " :: vt%d was given ID %zu while the heartbeat handed out to its previous owner vt%d is still unexpired", me, id, r.owner);
          }
        }
      }
    }
    if (S->owner_of[id] != -1 && S->owner_of[id] != me) {
      if (S->owner_of[id] == kMainThreadOwner) {
        ORACLE("[C05]", "duplicate-id-with-main-thread", " :: vt%d was given ID %zu, which the main thread claimed before main() and still holds", me, id);
      }
      ORACLE("[C05]", "duplicate-id", " :: vt%d and vt%d both hold ID %zu while executing user code", me, S->owner_of[id], id);
    }
    S->owner_of[id] = me;
    S->in_user[me] = true;
    S->holders++;
  } else if (id != first) {
    ORACLE("[C05]", "id-not-stable", " :: call %d of GetThreadID by vt%d returned %zu, the first call returned %zu", call_no + 1, me, id, first);
  }
  return id;
}

void end_user_code(size_t id)
{
  const int me = dsim::self();
  if (id < kN && S->owner_of[id] == me) S->owner_of[id] = -1;
  S->in_user[me] = false;
  S->exiting[me] = true;
  dsim::count_fault(dsim::kFThreadExit);
  // the thread-exit cleanup (thread_local destructors) runs under the scheduler; keep it marked as an API phase
  dsim::op_begin("thread-exit cleanup", 0);
}

struct WArg {
  int tid;
};

void worker_fn(void *p)
{
  const auto *w = static_cast<WArg *>(p);
  const Op &o = S->prog->threads[static_cast<size_t>(w->tid)][0];
  tl_probe_hash = static_cast<size_t>(o.a);
  if ((static_cast<size_t>(o.a) % kN) + 1 >= kN) dsim::probe(pWrap);
  size_t first = 0;
  const int calls = static_cast<int>(o.b < 1 ? 1 : o.b);
  // half of the threads (a function of the arguments, no extra random draw) enter the IDManager through GetHeartBeat: the ID is then
  // claimed inside that call and the thread-local objects behind the two functions are created in the opposite order
  const bool hb_first = ((o.a + o.c) & 1) != 0;
  std::weak_ptr<size_t> hb;
  if (hb_first) {
    dsim::probe(pHeartBeatFirst);
    dsim::op_begin("GetHeartBeat (first call of the thread)", 0);
    hb = IDManager::GetHeartBeat();
    dsim::op_end();
  }
  for (int c = 0; c < calls; ++c) {
    dsim::set_pos(c + 1);
    const size_t id = get_id_checked(c, first);
    if (c == 0) {
      first = id;
      if (!hb_first) {
        dsim::op_begin("GetHeartBeat", 0);
        hb = IDManager::GetHeartBeat();
        dsim::op_end();
      }
      S->hbs.push_back(HbRec{hb, dsim::self(), id});
    }
    check_heartbeats_alive("between GetThreadID calls");
    dsim::yield();
  }
  for (int64_t i = 0; i < o.c; ++i) {
    dsim::yield();
    if ((i & 3) == 3) check_heartbeats_alive("while holding the ID");
  }
  check_heartbeats_alive("before thread exit");
  dsim::set_pos(99);
  end_user_code(first);
}

// hand-over histories (profile 3): kN holders keep their IDs until the coordinator tells one of them to exit; extra claimants
// that found every ID taken must obtain the released one ("as soon as some holder exits"), the other holders exit only afterwards
void holder_fn(void *p)
{
  const auto *w = static_cast<WArg *>(p);
  const Op &o = S->prog->threads[static_cast<size_t>(w->tid)][0];
  tl_probe_hash = static_cast<size_t>(o.a);
  const size_t id = get_id_checked(0, 0);
  dsim::op_begin("GetHeartBeat", 0);
  std::weak_ptr<size_t> hb = IDManager::GetHeartBeat();
  dsim::op_end();
  S->hbs.push_back(HbRec{hb, dsim::self(), id});
  dsim::signal(0);
  dsim::wait_signal();  // hold the ID until told to exit
  check_heartbeats_alive("holder before exit");
  end_user_code(id);
}
void claimant_fn(void *p)
{
  const auto *w = static_cast<WArg *>(p);
  const Op &o = S->prog->threads[static_cast<size_t>(w->tid)][0];
  tl_probe_hash = static_cast<size_t>(o.a);
  const size_t id = get_id_checked(0, 0);  // every ID is taken when this starts: returns once a holder has exited
  dsim::probe(pOversubscribedWait);
  dsim::signal(0);
  for (int64_t i = 0; i < o.c; ++i) dsim::yield();
  end_user_code(id);
}

void run_handover(const Program &p)
{
  const int n = static_cast<int>(p.threads.size());
  std::vector<WArg> args(static_cast<size_t>(n));
  std::vector<int> ids(static_cast<size_t>(n), -1);
  std::vector<int> holders, claimants;
  for (int t = 0; t < n; ++t) (p.threads[static_cast<size_t>(t)][0].kind == 1 ? holders : claimants).push_back(t);
  for (int t : holders) {
    args[static_cast<size_t>(t)].tid = t;
    ids[static_cast<size_t>(t)] = dsim::spawn(holder_fn, &args[static_cast<size_t>(t)], "holder");
  }
  for (size_t i = 0; i < holders.size(); ++i) dsim::wait_signal();  // every holder has its ID
  set_phase("history");
  for (int t : claimants) {
    args[static_cast<size_t>(t)].tid = t;
    ids[static_cast<size_t>(t)] = dsim::spawn(claimant_fn, &args[static_cast<size_t>(t)], "claimant");
  }
  // holders exit in the order given by their `obj` field, one per waiting claimant; the rest only after every claimant succeeded
  std::vector<int> order = holders;
  std::sort(order.begin(), order.end(), [&](int a, int b) { return p.threads[static_cast<size_t>(a)][0].obj < p.threads[static_cast<size_t>(b)][0].obj; });
  size_t next = 0;
  for (size_t c = 0; c < claimants.size() && next < order.size(); ++c) {
    for (int64_t y = 0; y < p.threads[static_cast<size_t>(claimants[c])][0].obj; ++y) dsim::yield();  // let the claimants sweep the table first
    dsim::signal(ids[static_cast<size_t>(order[next++])]);
    dsim::wait_signal();  // some claimant obtained the released ID
  }
  while (next < order.size()) dsim::signal(ids[static_cast<size_t>(order[next++])]);
  for (int t = 0; t < n; ++t) {
    dsim::join(ids[static_cast<size_t>(t)]);
    S->joined[ids[static_cast<size_t>(t)]] = true;
    check_heartbeats_alive("after join");
  }
}

// final phase: kN fresh threads must all obtain distinct IDs while all of them are alive (no slot stayed reserved)
void final_fn(void *p)
{
  const auto *w = static_cast<WArg *>(p);
  tl_probe_hash = static_cast<size_t>(w->tid) * 7 + 3;
  const size_t id = get_id_checked(0, 0);
  const int k = S->arrived++;
  S->final_ids[k] = static_cast<int>(id);
  S->final_vt[k] = dsim::self();
  if (S->arrived == S->final_n) {
    for (int i = 0; i + 1 < S->final_n; ++i) dsim::signal(S->final_vt[i]);
    dsim::probe(pFinalRound);
  } else {
    dsim::wait_signal();
  }
  end_user_code(id);
}

void entry(void *)
{
  const Program &p = current_program();
  S = new State{};
  S->prog = &p;
  for (auto &o : S->owner_of) o = -1;
  const bool early = p.family == 1;
  if (early) {
    if (g_early_id < 0) dsim::fail("[harness] early-claim-missing", "family 1 runs need a process whose main thread claimed its ID before main()");
    S->owner_of[g_early_id] = kMainThreadOwner;
    S->holders = 1;
    dsim::probe(pEarlyClaim);
  }
  const size_t final_n = early ? (kN - 1 < 10 ? kN - 1 : 10) : kFinal;
  S->final_n = static_cast<int>(final_n);
  const int n = static_cast<int>(p.threads.size());
  std::vector<WArg> args(static_cast<size_t>(n));
  std::vector<int> ids(static_cast<size_t>(n));
  bool any_exit = false;
  const bool handover = p.profile == kHandover && !early;  // hand-over histories fill the whole table: not with an ID held by main
  if (handover) run_handover(p);
  for (int t = 0; t < n && !handover; ++t) {
    const Op &o = p.threads[static_cast<size_t>(t)][0];
    for (int i = 0; i < o.obj; ++i) dsim::yield();
    args[static_cast<size_t>(t)].tid = t;
    for (int u = 0; u < t; ++u)
      if (S->exiting[ids[static_cast<size_t>(u)]]) any_exit = true;
    if (any_exit) dsim::count_fault(dsim::kFThreadRestart);
    ids[static_cast<size_t>(t)] = dsim::spawn(worker_fn, &args[static_cast<size_t>(t)], "worker");
  }
  set_phase("history");
  for (int t = 0; t < n && !handover; ++t) {
    dsim::join(ids[static_cast<size_t>(t)]);
    S->joined[ids[static_cast<size_t>(t)]] = true;
    S->holders--;
    check_heartbeats_alive("after join");
  }
  // C14: the whole capacity is available again
  set_phase("final");
  S->holders = early ? 1 : 0;
  std::vector<WArg> fargs(final_n);
  std::vector<int> fids(final_n);
  for (size_t t = 0; t < final_n; ++t) {
    fargs[t].tid = static_cast<int>(t);
    fids[t] = dsim::spawn(final_fn, &fargs[t], "fresh");
  }
  for (size_t t = 0; t < final_n; ++t) {
    dsim::join(fids[t]);
    S->joined[fids[t]] = true;
  }
  for (size_t a = 0; a < final_n; ++a)
    for (size_t b = a + 1; b < final_n; ++b)
      if (S->final_ids[a] == S->final_ids[b]) {
        ORACLE("[C14][C05]", "final-round-duplicate-id", " :: two of the %zu fresh threads that were alive together got ID %d", final_n, S->final_ids[a]);
      }
  check_heartbeats_alive("end of run");
  set_phase("teardown");
  S->hbs.clear();
  delete S;
  S = nullptr;
}

void generate_handover(Program &prog, dsim::Rng &pr)
{
  const int n = static_cast<int>(kN);
  const int k = 1 + static_cast<int>(pr.below(n >= 2 ? 2 : 1));
  const int pattern = static_cast<int>(pr.below(4));
  const size_t base = pr.below(1000);
  prog.params = {static_cast<int64_t>(n), pattern};
  prog.threads.clear();
  for (int t = 0; t < n + k; ++t) {
    Op o;
    o.kind = t < n ? 1 : 2;                                  // 1 = holder, 2 = claimant
    o.obj = static_cast<int>(pr.below(t < n ? 1000 : 12));   // holder: exit order key; claimant: yields before the first holder exits
    switch (pattern) {
      case 0: o.a = static_cast<int64_t>(base); break;
      case 1: o.a = static_cast<int64_t>(base + static_cast<size_t>(t)); break;
      case 2: o.a = static_cast<int64_t>(static_cast<size_t>(n) * (1 + base) + static_cast<size_t>(n) - 2 + static_cast<size_t>(t % 2)); break;
      default: o.a = static_cast<int64_t>(pr.below(100000)); break;
    }
    o.b = 1;
    o.c = static_cast<int64_t>(pr.below(4));
    prog.threads.push_back({o});
  }
}

void generate(Program &prog, dsim::Config &cfg, dsim::Rng &pr, dsim::Rng &cr, int family, int profile)
{
  const int n = static_cast<int>(kN) - (family == 1 ? 1 : 0);  // family 1: one ID is held by the main thread throughout
  int T;
  switch (profile) {
    case kTogether: T = 1 + static_cast<int>(pr.below(static_cast<uint64_t>(n + 2))); break;
    case kWaves: T = n + 1 + static_cast<int>(pr.below(5)); break;
    default: T = n + 1 + static_cast<int>(pr.below(3)); break;
  }
  if (n > 8) T = 3 + static_cast<int>(pr.below(10));  // large capacities: a dozen threads, probe starts anywhere in the table
  if (scale() >= 2) T += 2 + static_cast<int>(pr.below(5));
  else if (scale() >= 1 && pr.chance(1, 3)) T += 1 + static_cast<int>(pr.below(4));  // thorough tier: longer histories
  if (T > 18) T = 18;
  const int pattern = static_cast<int>(pr.below(4));  // all equal, adjacent, wrap (N-1), random
  const size_t base = pr.below(1000);
  prog.params = {static_cast<int64_t>(n), pattern};
  prog.threads.clear();
  if (profile == kHandover && n <= 8 && family != 1) {
    generate_handover(prog, pr);
    T = static_cast<int>(prog.threads.size());
  }
  for (int t = 0; t < T && !(profile == kHandover && n <= 8 && family != 1); ++t) {
    Op o;
    o.kind = 0;
    o.obj = profile == kTogether ? 0 : static_cast<int>(pr.below(profile == kWaves ? 7 : 3));
    switch (pattern) {
      case 0: o.a = static_cast<int64_t>(base); break;
      case 1: o.a = static_cast<int64_t>(base + static_cast<size_t>(t)); break;
      case 2: o.a = static_cast<int64_t>(static_cast<size_t>(n) * (1 + base) + static_cast<size_t>(n) - 2 + static_cast<size_t>(t % 2)); break;
      default: o.a = static_cast<int64_t>(pr.below(100000)); break;
    }
    o.b = 1 + static_cast<int64_t>(pr.below(profile == kTogether ? 4 : 2));
    o.c = static_cast<int64_t>(pr.below(profile == kExitRace ? 3 : 9));
    prog.threads.push_back({o});
  }
  const uint64_t s = cr.below(100);
  if (s < 30) cfg.strategy = dsim::kRandom;
  else if (s < 55) cfg.strategy = dsim::kSticky;
  else if (s < 80) cfg.strategy = dsim::kPCT;
  else cfg.strategy = dsim::kStall;
  cfg.pct_depth = 1 + static_cast<int>(cr.below(3));
  cfg.pct_len = 30 + T * 25;
  cfg.sticky_percent = 40 + static_cast<int>(cr.below(55));
  if (cfg.strategy == dsim::kStall) {
    cfg.stall_permille = 15 + static_cast<int>(cr.below(50));
    cfg.stall_max = 30 + static_cast<int>(cr.below(800));
  }
  cfg.spin_bound = 3 * n + 12;
  cfg.max_steps = n > 8 ? 400000 : 200000;
  cfg.tso = cr.chance(1, 4);
  static const int kDrain[] = {1, 5, 25};
  cfg.tso_drain_percent = kDrain[cr.below(3)];
  cfg.weak_stores = cr.chance(1, 2);  // half of the buffered runs: only release-class operations drain the buffer
}

std::string render(const Program &p)
{
  static const char *pat[] = {"all probe starts equal", "adjacent probe starts", "probe starts at the end of the table (wrap)", "random probe starts"};
  std::string s = "IDManager capacity " + std::to_string(p.params.empty() ? 0 : p.params[0]) + ", " + std::to_string(p.threads.size()) +
                  " threads over time, " + pat[(p.params.size() > 1 ? p.params[1] : 3) & 3] + "; afterwards " +
                  std::to_string(p.params.empty() ? 0 : p.params[0]) + " fresh threads alive together\n";
  for (size_t t = 0; t < p.threads.size() && p.profile == kHandover; ++t) {
    const Op &o = p.threads[t][0];
    s += "  T" + std::to_string(t + 1) + (o.kind == 1 ? ": holder, probe hash " + std::to_string(o.a) + ", keeps its ID until told to exit (order key " + std::to_string(o.obj) + ")\n"
                                                       : ": claimant started when every ID is taken, probe hash " + std::to_string(o.a) + "\n");
  }
  for (size_t t = 0; t < p.threads.size() && p.profile != kHandover; ++t) {
    const Op &o = p.threads[t][0];
    s += "  T" + std::to_string(t + 1) + ": spawned after " + std::to_string(o.obj) + " yields, probe hash " + std::to_string(o.a) + ", GetThreadID x" +
         std::to_string(o.b) + " + GetHeartBeat, holds for " + std::to_string(o.c) + " yields, exits\n";
  }
  return s;
}

std::string tags_for_runtime_class(const Program &, const char *cls)
{
  const std::string c = cls;
  if (c.rfind("deadlock", 0) == 0) return std::string(phase()) == "final" ? "[C14] capacity-lost" : "[C14] claim-never-returns";
  if (c.rfind("crash/", 0) == 0) return "[C05][C14][C15]";
  if (c.rfind("heap/", 0) == 0) return "[C15]";
  return "[inconclusive]";
}

void process_init()
{
  const char *e = getenv("VERIF_PROP");
  g_prop = e ? std::string("[") + e + "]" : "";
}
}  // namespace

const Scenario kIdmScenario = {"idm", generate, entry, render, tags_for_runtime_class, kProbeNames, process_init};

}  // namespace sim
