// dsim runtime: own implementation of the __tsan_* ABI + baton-passing scheduler + simulated clock +
// fault injection + happens-before engine + heap tracker.  NOT compiled with -fsanitize=thread.
// No C++ allocation in here: every table is a fixed array or malloc/mmap backed.
#include "dsim.hpp"

#include <errno.h>
#include <linux/futex.h>
#include <pthread.h>
#include <sched.h>
#include <signal.h>
#include <stdarg.h>
#include <stdio.h>
#include <stdlib.h>
#include <string.h>
#include <sys/mman.h>
#include <sys/syscall.h>
#include <time.h>
#include <unistd.h>

#include <atomic>
#include <new>

namespace dsim
{
// =================================================================================================
// PRNG
// =================================================================================================
static inline uint64_t splitmix(uint64_t &x)
{
  uint64_t z = (x += 0x9e3779b97f4a7c15ULL);
  z = (z ^ (z >> 30)) * 0xbf58476d1ce4e5b9ULL;
  z = (z ^ (z >> 27)) * 0x94d049bb133111ebULL;
  return z ^ (z >> 31);
}
uint64_t mix64(uint64_t a, uint64_t b)
{
  uint64_t x = a ^ (b + 0x9e3779b97f4a7c15ULL + (a << 6) + (a >> 2));
  return splitmix(x);
}
Rng::Rng(uint64_t seed)
{
  uint64_t x = seed;
  for (auto &w : s) w = splitmix(x);
}
static inline uint64_t rotl(uint64_t x, int k) { return (x << k) | (x >> (64 - k)); }
uint64_t Rng::next()
{
  const uint64_t r = rotl(s[1] * 5, 7) * 9;
  const uint64_t t = s[1] << 17;
  s[2] ^= s[0];
  s[3] ^= s[1];
  s[1] ^= s[2];
  s[0] ^= s[3];
  s[2] ^= t;
  s[3] = rotl(s[3], 45);
  return r;
}
uint64_t Rng::below(uint64_t n) { return n ? next() % n : 0; }
bool Rng::chance(uint64_t num, uint64_t den) { return below(den) < num; }

// =================================================================================================
// data
// =================================================================================================
enum VState : int { kFree = 0, kRunnable, kSleeping, kSpinBlocked, kJoinWait, kSigWait, kFinished };
enum OpKind : int {
  OP_LOAD = 0, OP_STORE, OP_XCHG, OP_FADD, OP_FSUB, OP_FAND, OP_FOR, OP_FXOR, OP_FNAND,
  OP_CAS_S, OP_CAS_W, OP_FENCE, OP_YIELD, OP_SLEEP, OP_SPAWN, OP_JOIN, OP_START, OP_FINISH,
  OP_PLAIN_R, OP_PLAIN_W, OP_WAITSIG, OP_SIGNAL
};
static const char *kOpName[] = {"load", "store", "xchg", "fadd", "fsub", "fand", "for", "fxor", "fnand",
                                "cas_s", "cas_w", "fence", "yield", "sleep", "spawn", "join", "start",
                                "finish", "plain_r", "plain_w", "waitsig", "signal"};

using Clock = uint32_t[kMaxVT];

struct ReadEnt {
  uintptr_t addr;
  uint32_t mod;
  uint32_t last;  // value of the owner's read counter when this location was last read
};
constexpr int kReadSet = 24;

struct VT {
  int id;
  pthread_t th;
  std::atomic<uint32_t> go;
  int state;
  uint64_t wake_ns;
  int join_target;
  int pending_signals;
  Fn fn;
  void *arg;
  const char *name;
  // spin detection
  uint32_t ro_steps;
  uint32_t rd_ctr;
  ReadEnt rs[kReadSet];
  int nrs;
  bool graced;
  uint64_t stall_until;
  // API context
  const char *ctx;
  int obj;
  bool in_api;
  int pos;
  int pend_kind;
  uintptr_t pend_addr;
  // faults
  uint64_t fault_ctr;
  uintptr_t spur_addr;
  int spur_run;
  // first-write watch
  uintptr_t w_lo, w_hi;
  uint64_t w_seq;
  uint64_t w_all[8];
  int w_n;
  int alloc_tag;
  int64_t prio;
  // TSO store buffer (oldest first)
  struct SBEnt {
    uintptr_t addr;
    uint64_t val;
    int size, mo;
  } sb[16];
  int nsb;
  // observer
  uint64_t obs_cap, obs_cnt;
  const char *obs_cls;
  bool started;
};

struct Loc {
  uintptr_t addr;
  uint32_t gen;
  uint32_t mod;
  Clock clk;  // release-sequence clock
  // payload race detector
  int w_t;
  uint32_t w_c;
  Clock rd;
};
constexpr size_t kLocCap = 1u << 14;

struct Block {
  uintptr_t addr;
  uint32_t size;
  uint32_t align;
  uint32_t seq;
  int16_t tag;
  uint8_t freed;
  uint8_t vt;
};
constexpr size_t kBlockCap = 1u << 21;
constexpr int kTags = 16;

constexpr uintptr_t kArenaBase = 0x100000000000ULL;
constexpr size_t kArenaSize = 4ULL << 30;
constexpr uint64_t kQuantumNs = 100;

struct Ev {
  uint64_t step;
  int vt, kind, mo, size;
  uintptr_t addr;
  uint64_t oldv, newv;
  bool wrote;
};
constexpr int kRing = 64;

struct Global {
  Config cfg;
  bool run_active;
  VT vts[kMaxVT];
  int nvt;
  int cur;
  int finished;
  uint64_t step;
  uint64_t now;
  Rng rng{1};
  Result res;
  uint8_t *choices;
  size_t nchoices, cap_choices;
  // PCT
  uint64_t pct_points[8];
  // grace / deadlock
  bool in_grace;
  uint64_t grace_left;
  int grace_rr;
  int last;
  // tables
  Loc *locs;
  uint32_t gen;
  size_t nlocs;
  Block *blocks;
  size_t nblocks;
  uintptr_t arena_top;
  size_t live_cnt[kTags], live_bytes[kTags], total_cnt[kTags];
  int uaf_policy[kTags];
  // HB
  Clock C[kMaxVT], Frel[kMaxVT], Facq[kMaxVT], Cfin[kMaxVT];
  // state canonicalisation
  uint64_t state_hash;
  uint64_t *sset;
  size_t sset_cap, sset_n;
  // watch (C19)
  uintptr_t wr_lo, wr_hi;
  uint64_t wr_writes;
  // misc
  uint64_t probes[64];
  int api_overlap;
  bool nontrivial;
  Ev ring[kRing];
  uint64_t nring;
  std::atomic<uint32_t> done;
  void (*abort_cb)(const Result &);
};
static Global G;
static thread_local VT *tl_vt = nullptr;
static thread_local int tl_raw = 0;

// =================================================================================================
// futex baton
// =================================================================================================
static inline long futex(std::atomic<uint32_t> *a, int op, uint32_t v)
{
  return syscall(SYS_futex, reinterpret_cast<uint32_t *>(a), op, v, nullptr, nullptr, 0);
}
static void park(std::atomic<uint32_t> &go)
{
  while (!go.load(std::memory_order_acquire)) futex(&go, FUTEX_WAIT_PRIVATE, 0);
  go.store(0, std::memory_order_relaxed);
}
static void wake(std::atomic<uint32_t> &go)
{
  go.store(1, std::memory_order_release);
  futex(&go, FUTEX_WAKE_PRIVATE, 1);
}

// =================================================================================================
// abort path
// =================================================================================================
static void finalize_result()
{
  G.res.steps = G.step;
  G.res.sim_ns = G.now;
  G.res.nvt = G.nvt;
  G.res.choices = G.choices;
  G.res.nchoices = G.nchoices;
}

[[noreturn]] static void abort_run(int status, const char *cls, const char *msg)
{
  tl_raw++;
  G.res.status = status;
  snprintf(G.res.cls, sizeof(G.res.cls), "%s", cls);
  snprintf(G.res.msg, sizeof(G.res.msg), "%s", msg);
  finalize_result();
  if (G.abort_cb) G.abort_cb(G.res);
  fprintf(stderr, "dsim: abnormal end of run without abort callback: %s: %s\n", cls, msg);
  _exit(70);
}

void fail(const char *cls, const char *fmt, ...)
{
  char buf[1024];
  va_list ap;
  va_start(ap, fmt);
  vsnprintf(buf, sizeof(buf), fmt, ap);
  va_end(ap);
  abort_run(kViolation, cls, buf);
}

static void describe_threads(char *buf, size_t n)
{
  size_t o = 0;
  static const char *sn[] = {"free", "runnable", "sleeping", "spin-blocked", "join-wait", "sig-wait", "finished"};
  for (int i = 0; i < G.nvt && o + 160 < n; ++i) {
    VT &v = G.vts[i];
    if (v.state == kFinished) continue;
    o += snprintf(buf + o, n - o, "[vt%d %s %s in '%s' pending %s@%#lx] ", i, v.name ? v.name : "", sn[v.state],
                  v.in_api && v.ctx ? v.ctx : "-", kOpName[v.pend_kind], static_cast<unsigned long>(v.pend_addr));
  }
}

// =================================================================================================
// heap
// =================================================================================================
static inline bool in_arena(uintptr_t a) { return a - kArenaBase < G.arena_top - kArenaBase; }

static Block *find_block(uintptr_t a)
{
  size_t lo = 0, hi = G.nblocks;
  while (lo < hi) {
    size_t mid = (lo + hi) / 2;
    if (G.blocks[mid].addr <= a) lo = mid + 1; else hi = mid;
  }
  if (lo == 0) return nullptr;
  Block *b = &G.blocks[lo - 1];
  return (a < b->addr + (b->size ? b->size : 1)) ? b : nullptr;
}

static void *arena_alloc(size_t n, size_t al)
{
  if (al < 16) al = 16;
  uintptr_t p = (G.arena_top + al - 1) & ~(al - 1);
  size_t sz = n ? n : 1;
  if (p + sz + 64 > kArenaBase + kArenaSize || G.nblocks >= kBlockCap) {
    abort_run(kStepCap, "runtime/arena-exhausted", "arena or block table exhausted");
  }
  G.arena_top = p + sz + 16;  // 16-byte red zone between blocks
  Block &b = G.blocks[G.nblocks];
  b.addr = p;
  b.size = static_cast<uint32_t>(sz);
  b.align = static_cast<uint32_t>(al);
  b.seq = static_cast<uint32_t>(G.nblocks);
  b.tag = static_cast<int16_t>(tl_vt ? tl_vt->alloc_tag : 0);
  b.freed = 0;
  b.vt = static_cast<uint8_t>(tl_vt ? tl_vt->id : 0);
  G.nblocks++;
  G.live_cnt[b.tag]++;
  G.live_bytes[b.tag] += sz;
  G.total_cnt[b.tag]++;
  return reinterpret_cast<void *>(p);
}

static void uaf_hit(Block *b, uintptr_t a, const char *what)
{
  if (G.uaf_policy[b->tag] == kUafNote) {
    G.res.uaf_notes++;
    return;
  }
  char m[512];
  VT *me = tl_vt;
  snprintf(m, sizeof(m),
           "%s of freed block #%u (tag %d, size %u, allocated by vt%d) at offset %lu by vt%d in '%s' at step %lu",
           what, b->seq, b->tag, b->size, b->vt, static_cast<unsigned long>(a - b->addr), me ? me->id : -1,
           me && me->ctx ? me->ctx : "-", static_cast<unsigned long>(G.step));
  char cls[96];
  // "/plain-step": found while plain accesses were scheduling points, i.e. under an interleaving finer than the atomic steps
  if (G.cfg.plain_sched) {
    snprintf(cls, sizeof(cls), "heap/use-after-free/tag%d/plain-step in %.40s", b->tag, me && me->in_api && me->ctx ? me->ctx : "-");
  } else {
    snprintf(cls, sizeof(cls), "heap/use-after-free/tag%d", b->tag);
  }
  abort_run(kViolation, cls, m);
}

static inline void check_access(uintptr_t a, size_t n, const char *what)
{
  if (!in_arena(a)) return;
  Block *b = find_block(a);
  if (b && b->freed) uaf_hit(b, a, what);
  if (n > 1) {
    Block *e = find_block(a + n - 1);
    if (e && e != b && e->freed) uaf_hit(e, a + n - 1, what);
  }
}

static void *dsim_new(size_t n, size_t al)
{
  if (tl_vt && G.run_active) return arena_alloc(n, al);
  void *p = nullptr;
  if (al > 16) {
    if (posix_memalign(&p, al, n ? n : 1) != 0) p = nullptr;
  } else {
    p = malloc(n ? n : 1);
  }
  if (!p) {
    fprintf(stderr, "dsim: out of memory\n");
    _exit(71);
  }
  return p;
}

static void dsim_delete(void *p)
{
  if (!p) return;
  auto a = reinterpret_cast<uintptr_t>(p);
  if (a - kArenaBase < kArenaSize) {
    if (!in_arena(a)) return;  // stale pointer from an earlier run (arena already reset)
    Block *b = find_block(a);
    if (!b || b->addr != a) {
      if (G.run_active && tl_vt) abort_run(kViolation, "heap/invalid-free", "delete of a pointer that is not a block start");
      return;
    }
    if (b->freed) {
      if (G.run_active && tl_vt) {
        char m[256];
        snprintf(m, sizeof(m), "double free of block #%u (tag %d, size %u) by vt%d in '%s'", b->seq, b->tag, b->size,
                 tl_vt->id, tl_vt->ctx ? tl_vt->ctx : "-");
        char cls[64];
        snprintf(cls, sizeof(cls), "heap/double-free/tag%d", b->tag);
        abort_run(kViolation, cls, m);
      }
      return;
    }
    b->freed = 1;
    G.live_cnt[b->tag]--;
    G.live_bytes[b->tag] -= b->size;
    memset(p, 0xDD, b->size);
    return;
  }
  free(p);
}

void set_alloc_tag(int tag) { if (tl_vt) tl_vt->alloc_tag = tag; }
int alloc_tag() { return tl_vt ? tl_vt->alloc_tag : 0; }
void set_uaf_policy(int tag, int policy) { G.uaf_policy[tag] = policy; }
size_t heap_live(int tag)
{
  if (tag >= 0) return G.live_cnt[tag];
  size_t s = 0;
  for (auto c : G.live_cnt) s += c;
  return s;
}
size_t heap_live_bytes(int tag) { return G.live_bytes[tag]; }
size_t heap_total_allocs(int tag) { return G.total_cnt[tag]; }
size_t heap_live_aligned(int tag, size_t min_size, size_t align)
{
  size_t n = 0;
  for (size_t i = 0; i < G.nblocks; ++i) {
    const Block &b = G.blocks[i];
    if (!b.freed && b.tag == tag && b.size >= min_size && b.align >= align) n++;
  }
  return n;
}
bool heap_is_freed(const void *p)
{
  auto a = reinterpret_cast<uintptr_t>(p);
  if (!in_arena(a)) return false;
  Block *b = find_block(a);
  return b && b->freed;
}
void watch_range(const void *addr, size_t len)
{
  G.wr_lo = reinterpret_cast<uintptr_t>(addr);
  G.wr_hi = G.wr_lo + len;
  G.wr_writes = 0;
}
uint64_t watched_plain_writes() { return G.wr_writes; }

// =================================================================================================
// location table / HB
// =================================================================================================
static Loc *loc_get(uintptr_t a, bool *fresh = nullptr)
{
  size_t h = (a * 0x9E3779B97F4A7C15ULL) >> (64 - 14);
  for (size_t i = 0; i < kLocCap; ++i) {
    Loc &l = G.locs[(h + i) & (kLocCap - 1)];
    if (l.gen == G.gen && l.addr == a) {
      if (fresh) *fresh = false;
      return &l;
    }
    if (l.gen != G.gen) {
      if (G.nlocs * 4 > kLocCap * 3) abort_run(kStepCap, "runtime/loc-table-full", "too many atomic locations in one run");
      memset(&l, 0, sizeof(l));
      l.addr = a;
      l.gen = G.gen;
      l.w_t = -1;
      G.nlocs++;
      if (fresh) *fresh = true;
      return &l;
    }
  }
  abort_run(kStepCap, "runtime/loc-table-full", "location table full");
}
static inline void cjoin(Clock dst, const Clock src)
{
  for (int i = 0; i < kMaxVT; ++i)
    if (src[i] > dst[i]) dst[i] = src[i];
}
static inline void ccopy(Clock dst, const Clock src) { memcpy(dst, src, sizeof(Clock)); }

static void hb_atomic(VT *me, Loc *l, int kind, int mo, bool wrote)
{
  const int t = me->id;
  const bool acq = (mo == 1 || mo == 2 || mo == 4 || mo == 5);
  const bool rel = (mo == 3 || mo == 4 || mo == 5);
  const bool reads = (kind != OP_STORE);
  if (reads) {
    if (acq) cjoin(G.C[t], l->clk); else cjoin(G.Facq[t], l->clk);
  }
  if (wrote) {
    if (kind == OP_STORE) {
      ccopy(l->clk, rel ? G.C[t] : G.Frel[t]);  // a plain store starts a new release sequence
    } else {
      cjoin(l->clk, rel ? G.C[t] : G.Frel[t]);  // an RMW continues the release sequences it extends
    }
    if (rel) G.C[t][t]++;
  }
}
static void hb_fence(VT *me, int mo)
{
  const int t = me->id;
  const bool acq = (mo == 1 || mo == 2 || mo == 4 || mo == 5);
  const bool rel = (mo == 3 || mo == 4 || mo == 5);
  if (acq) cjoin(G.C[t], G.Facq[t]);
  if (rel) {
    ccopy(G.Frel[t], G.C[t]);
    G.C[t][t]++;
  }
}
Epoch hb_mark()
{
  Epoch e;
  if (!tl_vt) return e;
  e.t = tl_vt->id;
  e.c = ++G.C[e.t][e.t];
  return e;
}
bool hb_before(Epoch e)
{
  if (!tl_vt || e.t < 0) return true;
  if (e.t == tl_vt->id) return true;
  return G.C[tl_vt->id][e.t] >= e.c;
}
bool payload_read(const void *addr, int *racer)
{
  VT *me = tl_vt;
  if (!me) return true;
  Loc *l = loc_get(reinterpret_cast<uintptr_t>(addr) | 1);  // odd key: never collides with an atomic
  const int t = me->id;
  bool ok = true;
  if (l->w_t >= 0 && l->w_t != t && G.C[t][l->w_t] < l->w_c) {
    ok = false;
    if (racer) *racer = l->w_t;
  }
  l->rd[t] = G.C[t][t];
  return ok;
}
bool payload_write(const void *addr, int *racer)
{
  VT *me = tl_vt;
  if (!me) return true;
  Loc *l = loc_get(reinterpret_cast<uintptr_t>(addr) | 1);
  const int t = me->id;
  bool ok = true;
  if (l->w_t >= 0 && l->w_t != t && G.C[t][l->w_t] < l->w_c) {
    ok = false;
    if (racer) *racer = l->w_t;
  }
  for (int i = 0; i < kMaxVT && ok; ++i) {
    if (i != t && l->rd[i] && G.C[t][i] < l->rd[i]) {
      ok = false;
      if (racer) *racer = i;
    }
  }
  l->w_t = t;
  l->w_c = G.C[t][t];
  memset(l->rd, 0, sizeof(Clock));
  return ok;
}

// =================================================================================================
// canonical state set
// =================================================================================================
static void sset_insert(uint64_t k)
{
  if (!k) k = 1;
  if (G.sset_n * 2 > G.sset_cap) return;  // saturated: stop counting (reported as a lower bound)
  size_t h = (k * 0x9E3779B97F4A7C15ULL) >> 40;
  for (size_t i = 0;; ++i) {
    uint64_t &s = G.sset[(h + i) & (G.sset_cap - 1)];
    if (s == k) return;
    if (s == 0) {
      s = k;
      G.sset_n++;
      G.res.new_states++;
      return;
    }
  }
}
uint64_t distinct_states() { return G.sset_n; }

// =================================================================================================
// scheduler
// =================================================================================================
static inline void progress()
{
  if (G.in_grace) {
    G.in_grace = false;
    for (int i = 0; i < G.nvt; ++i) {
      if (G.vts[i].graced) {
        G.vts[i].graced = false;
        G.vts[i].ro_steps = 0;
      }
    }
  }
}

static void record_choice(int v)
{
  if (G.nchoices == G.cap_choices) {
    G.cap_choices = G.cap_choices ? G.cap_choices * 2 : 4096;
    G.choices = static_cast<uint8_t *>(realloc(G.choices, G.cap_choices));
  }
  G.choices[G.nchoices++] = static_cast<uint8_t>(v);
}

// only locations read during the last `spin_bound` read-only steps matter: older entries are dropped
static bool readset_unchanged(VT *v)
{
  const uint32_t b = static_cast<uint32_t>(G.cfg.spin_bound);
  int k = 0;
  for (int i = 0; i < v->nrs; ++i)
    if (v->rs[i].last + b >= v->rd_ctr) v->rs[k++] = v->rs[i];
  v->nrs = k;
  for (int i = 0; i < v->nrs; ++i) {
    Loc *l = loc_get(v->rs[i].addr);
    if (l->mod != v->rs[i].mod) return false;
  }
  return true;
}

static bool should_spin_block(VT *me)
{
  if (G.in_grace || me->graced) return false;
  if (!me->in_api) return false;
  if (me->ro_steps < static_cast<uint32_t>(G.cfg.spin_bound)) return false;
  return me->nrs > 0 && readset_unchanged(me);
}

static inline bool is_candidate(const VT &v) { return v.state == kRunnable && v.stall_until <= G.step; }

static int choose(VT *me)
{
  // wake sleepers whose time has come
  for (int i = 0; i < G.nvt; ++i) {
    VT &v = G.vts[i];
    if (v.state == kSleeping && v.wake_ns <= G.now) v.state = kRunnable;
  }
  // stall fault: park a runnable vthread for a while
  if (!G.cfg.replay_choices && G.cfg.stall_permille > 0 && !G.in_grace && G.rng.below(1000) < static_cast<uint64_t>(G.cfg.stall_permille)) {
    int cand[kMaxVT], n = 0, napi = 0;
    for (int i = 0; i < G.nvt; ++i)
      if (is_candidate(G.vts[i])) {
        cand[n++] = i;
        if (G.vts[i].in_api) napi++;
      }
    if (n > 1) {
      int pick = cand[G.rng.below(n)];
      if (napi > 0 && !G.vts[pick].in_api) pick = cand[G.rng.below(n)];  // bias: inside an API call
      uint64_t lg = G.rng.below(8);
      uint64_t len = 5 + G.rng.below((static_cast<uint64_t>(G.cfg.stall_max) >> (7 - lg)) + 1);
      G.vts[pick].stall_until = G.step + len;
      G.res.faults[kFStall]++;
    }
  }
  int cand[kMaxVT], n;
  for (;;) {
    n = 0;
    for (int i = 0; i < G.nvt; ++i)
      if (is_candidate(G.vts[i])) cand[n++] = i;
    if (n > 0) break;
    // nobody can run right now
    bool any_sleep = false, any_stall = false, any_spin = false;
    uint64_t tmin = ~0ULL, smin = ~0ULL;
    for (int i = 0; i < G.nvt; ++i) {
      VT &v = G.vts[i];
      if (v.state == kSleeping) {
        any_sleep = true;
        if (v.wake_ns < tmin) tmin = v.wake_ns;
      } else if (v.state == kRunnable && v.stall_until > G.step) {
        any_stall = true;
        if (v.stall_until < smin) smin = v.stall_until;
      } else if (v.state == kSpinBlocked) {
        any_spin = true;
      }
    }
    if (any_stall) {  // a stall ends early when nothing else can run (stalls are finite by construction)
      for (int i = 0; i < G.nvt; ++i)
        if (G.vts[i].state == kRunnable && G.vts[i].stall_until == smin) G.vts[i].stall_until = 0;
      continue;
    }
    if (any_sleep) {  // discrete-event clock jump
      G.now = tmin;
      for (int i = 0; i < G.nvt; ++i)
        if (G.vts[i].state == kSleeping && G.vts[i].wake_ns <= G.now) G.vts[i].state = kRunnable;
      continue;
    }
    if (any_spin) {  // grace phase before a deadlock verdict
      int cnt = 0;
      for (int i = 0; i < G.nvt; ++i)
        if (G.vts[i].state == kSpinBlocked) {
          G.vts[i].state = kRunnable;
          G.vts[i].graced = true;
          cnt++;
        }
      G.in_grace = true;
      G.grace_left = 400ULL * cnt;
      G.res.grace_phases++;
      continue;
    }
    char m[900];
    describe_threads(m, sizeof(m));
    abort_run(kDeadlock, "deadlock/join-or-signal", m);
  }

  if (G.in_grace) {
    if (G.grace_left-- == 0) {
      char m[900];
      describe_threads(m, sizeof(m));
      abort_run(kDeadlock, "deadlock", m);
    }
    int pick = cand[0];
    for (int i = 0; i < n; ++i)
      if (cand[i] > G.grace_rr) {
        pick = cand[i];
        break;
      }
    G.grace_rr = pick;
    return pick;
  }

  if (G.cfg.replay_choices) {
    if (G.nchoices < G.cfg.replay_len) {
      int want = G.cfg.replay_choices[G.nchoices];
      for (int i = 0; i < n; ++i)
        if (cand[i] == want) return want;
    }
    G.res.divergences++;
    if (G.cfg.replay_strict) abort_run(kDiverged, "replay/diverged", "recorded decision is not enabled");
    // guided replay: keep running the current vthread if possible, else the lowest enabled one
    for (int i = 0; i < n; ++i)
      if (cand[i] == me->id) return me->id;
    return cand[0];
  }

  switch (G.cfg.strategy) {
    case kPCT: {
      for (int k = 0; k < G.cfg.pct_depth && k < 8; ++k)
        if (G.pct_points[k] == G.step) G.vts[G.cur].prio = -static_cast<int64_t>(k) - 1;
      int best = cand[0];
      for (int i = 1; i < n; ++i)
        if (G.vts[cand[i]].prio > G.vts[best].prio) best = cand[i];
      return best;
    }
    case kSequential: {
      for (int i = 0; i < n; ++i)
        if (cand[i] == me->id) return me->id;
      return cand[0];
    }
    case kSticky:
    case kStall: {
      bool me_ok = false;
      for (int i = 0; i < n; ++i)
        if (cand[i] == me->id) me_ok = true;
      if (me_ok && G.rng.below(100) < static_cast<uint64_t>(G.cfg.sticky_percent)) return me->id;
      return cand[G.rng.below(n)];
    }
    default:
      return cand[G.rng.below(n)];
  }
}

static void note_state()
{
  uint64_t h = G.state_hash;
  for (int i = 0; i < G.nvt; ++i) {
    const VT &v = G.vts[i];
    h = mix64(h, (static_cast<uint64_t>(v.state == kFinished) << 40) ^ (static_cast<uint64_t>(v.in_api) << 32) ^
                     (static_cast<uint64_t>(static_cast<uint32_t>(v.pos)) << 8) ^ static_cast<uint64_t>(v.pend_kind));
  }
  sset_insert(h);
}

static void switch_from(VT *me, int next)
{
  if (next == me->id) return;
  G.res.switches++;
  if (me->state == kRunnable) G.res.faults[kFPreempt]++;
  if (me->in_api && me->state == kRunnable) G.res.switches_in_api++;
  G.cur = next;
  wake(G.vts[next].go);
  if (me->state != kFinished) park(me->go);
}

// ---- TSO store buffers -----------------------------------------------------------------------------
static void post_atomic(VT *me, int kind, uintptr_t addr, int size, uint64_t oldv, uint64_t newv, int mo, bool wrote);

static void sb_flush_one(VT *v)
{
  if (v->nsb == 0) return;
  const VT::SBEnt e = v->sb[0];
  memmove(&v->sb[0], &v->sb[1], sizeof(VT::SBEnt) * static_cast<size_t>(v->nsb - 1));
  v->nsb--;
  if (in_arena(e.addr)) {
    Block *b = find_block(e.addr);
    if (b && b->freed) return;  // the owner freed the object in the meantime: the write evaporates with it
  }
  uint64_t old = 0;
  switch (e.size) {
    case 1: old = *reinterpret_cast<volatile uint8_t *>(e.addr); *reinterpret_cast<volatile uint8_t *>(e.addr) = static_cast<uint8_t>(e.val); break;
    case 2: old = *reinterpret_cast<volatile uint16_t *>(e.addr); *reinterpret_cast<volatile uint16_t *>(e.addr) = static_cast<uint16_t>(e.val); break;
    case 4: old = *reinterpret_cast<volatile uint32_t *>(e.addr); *reinterpret_cast<volatile uint32_t *>(e.addr) = static_cast<uint32_t>(e.val); break;
    default: old = *reinterpret_cast<volatile uint64_t *>(e.addr); *reinterpret_cast<volatile uint64_t *>(e.addr) = e.val; break;
  }
  post_atomic(v, OP_STORE, e.addr, e.size, old, e.val, e.mo, true);
}
static void sb_flush_all(VT *v)
{
  while (v->nsb > 0) sb_flush_one(v);
}
[[maybe_unused]] static void sb_flush_everybody()
{
  for (int i = 0; i < G.nvt; ++i) sb_flush_all(&G.vts[i]);
}
// drain up to and including the youngest buffered store to `addr` (coherence: a later access of the same thread to that location
// must not overtake it)
static void sb_flush_through(VT *v, uintptr_t addr)
{
  int last = -1;
  for (int i = 0; i < v->nsb; ++i)
    if (v->sb[i].addr == addr) last = i;
  for (int i = 0; i <= last; ++i) sb_flush_one(v);
}
// what a read-modify-write / seq_cst store of `me` with memory order `mo` on `addr` drains first
static void sb_before_rmw(VT *me, uintptr_t addr, int mo)
{
  if (!G.cfg.weak_stores || mo == 3 || mo == 4 || mo == 5) sb_flush_all(me);  // x86: every locked instruction; C++: release-class
  else sb_flush_through(me, addr);
}
static bool sb_lookup(VT *v, uintptr_t addr, int size, uint64_t *val)
{
  for (int i = v->nsb - 1; i >= 0; --i)
    if (v->sb[i].addr == addr && v->sb[i].size == size) {
      *val = v->sb[i].val;
      return true;
    }
  return false;
}

// the running vthread announces its pending operation; returns when it is chosen to perform it
static void sched_point(VT *me, int kind, uintptr_t addr)
{
  if (G.cfg.tso) {
    // a thread that is about to block drains its buffer (stores become visible eventually); otherwise the memory system may
    // drain the oldest entry of some buffer at any time (a recorded decision: 0x80 | vthread)
    if (me->state != kRunnable) sb_flush_all(me);
    if (G.cfg.replay_choices) {
      while (G.nchoices < G.cfg.replay_len && (G.cfg.replay_choices[G.nchoices] & 0x80)) {
        const int v = G.cfg.replay_choices[G.nchoices] & 0x7f;
        record_choice(0x80 | v);
        if (v < G.nvt) sb_flush_one(&G.vts[v]);
      }
    } else {
      int have[kMaxVT], n = 0;
      for (int i = 0; i < G.nvt; ++i)
        if (G.vts[i].nsb > 0) have[n++] = i;
      if (n > 0 && G.rng.below(100) < static_cast<uint64_t>(G.cfg.tso_drain_percent)) {
        const int v = have[G.rng.below(static_cast<uint64_t>(n))];
        record_choice(0x80 | v);
        sb_flush_one(&G.vts[v]);
      }
    }
  }
  G.step++;
  G.now += kQuantumNs;
  if (G.step > G.cfg.max_steps) {
    char m[900];
    describe_threads(m, sizeof(m));
    abort_run(kStepCap, "stepcap", m);
  }
  me->pend_kind = kind;
  me->pend_addr = addr;
  if (me->state == kRunnable && (kind == OP_LOAD || kind == OP_FENCE) && should_spin_block(me)) {
    me->state = kSpinBlocked;
    G.res.spin_blocks++;
    if (G.cfg.tso) sb_flush_all(me);
  }
  note_state();
  int next = choose(me);
  record_choice(next);
  G.last = next;
  switch_from(me, next);
}

static inline uint64_t fault_draw(VT *me, int kind)
{
  return mix64(mix64(G.cfg.fault_seed, (static_cast<uint64_t>(me->id) << 8) | static_cast<uint64_t>(kind)), me->fault_ctr++);
}

static void ring_push(VT *me, int kind, uintptr_t addr, int size, uint64_t oldv, uint64_t newv, int mo, bool wrote, bool hash_values = true)
{
  Ev &e = G.ring[G.nring++ % kRing];
  e.step = G.step;
  e.vt = me->id;
  e.kind = kind;
  e.addr = addr;
  e.size = size;
  e.oldv = oldv;
  e.newv = newv;
  e.mo = mo;
  e.wrote = wrote;
  uint64_t h = G.res.trace_hash;
  h = mix64(h, (static_cast<uint64_t>(me->id) << 48) ^ (static_cast<uint64_t>(kind) << 40) ^ (static_cast<uint64_t>(mo) << 32) ^ static_cast<uint64_t>(wrote));
  h = mix64(h, addr);
  if (hash_values) {  // values of plain accesses may be stack or TLS addresses (ASLR): shown in traces, kept out of the hash
    h = mix64(h, oldv);
    h = mix64(h, newv);
  }
  G.res.trace_hash = h;
  if (G.cfg.trace) {
    fprintf(stderr, "  %6lu vt%d %-7s %#14lx/%d mo=%d old=%#lx new=%#lx%s  [%s]\n", static_cast<unsigned long>(G.step), me->id,
            kOpName[kind], static_cast<unsigned long>(addr), size, mo, static_cast<unsigned long>(oldv),
            static_cast<unsigned long>(newv), wrote ? " W" : "", me->in_api && me->ctx ? me->ctx : "-");
  }
}

size_t format_tail(char *buf, size_t n)
{
  size_t o = 0;
  uint64_t start = G.nring > kRing ? G.nring - kRing : 0;
  for (uint64_t i = start; i < G.nring && o + 128 < n; ++i) {
    const Ev &e = G.ring[i % kRing];
    o += snprintf(buf + o, n - o, "%lu vt%d %s %#lx/%d mo=%d old=%#lx new=%#lx%s; ", static_cast<unsigned long>(e.step), e.vt,
                  kOpName[e.kind], static_cast<unsigned long>(e.addr), e.size, e.mo, static_cast<unsigned long>(e.oldv),
                  static_cast<unsigned long>(e.newv), e.wrote ? " W" : "");
  }
  return o;
}

// bookkeeping after an atomic access was performed
static void post_atomic(VT *me, int kind, uintptr_t addr, int size, uint64_t oldv, uint64_t newv, int mo, bool wrote)
{
  bool fresh = false;
  Loc *l = loc_get(addr, &fresh);
  if (fresh) G.state_hash ^= mix64(addr, oldv);
  if (wrote) {
    l->mod++;
    G.state_hash ^= mix64(addr, oldv) ^ mix64(addr, newv);
    for (int i = 0; i < G.nvt; ++i) {
      VT &v = G.vts[i];
      if (v.state != kSpinBlocked && !v.graced) continue;
      for (int k = 0; k < v.nrs; ++k)
        if (v.rs[k].addr == addr) {
          if (v.state == kSpinBlocked) v.state = kRunnable;
          v.graced = false;
          v.ro_steps = 0;
          v.nrs = 0;
          break;
        }
    }
    me->ro_steps = 0;
    me->nrs = 0;
    me->graced = false;
    progress();
    if (addr >= me->w_lo && addr < me->w_hi) {
      if (me->w_seq == 0) me->w_seq = G.step;
      if (me->w_n < 8) me->w_all[me->w_n++] = G.step;
    }
  } else {
    int k = 0;
    for (; k < me->nrs; ++k)
      if (me->rs[k].addr == addr) break;
    me->rd_ctr++;
    if (k < me->nrs) {
      if (me->rs[k].mod != l->mod) {
        me->rs[k].mod = l->mod;
        me->ro_steps = 0;
        me->graced = false;
      }
      me->rs[k].last = me->rd_ctr;
    } else {
      if (me->nrs == kReadSet) {
        memmove(&me->rs[0], &me->rs[1], sizeof(ReadEnt) * (kReadSet - 1));
        me->nrs--;
      }
      me->rs[me->nrs++] = ReadEnt{addr, l->mod, me->rd_ctr};
      me->ro_steps = 0;
    }
    me->ro_steps++;
  }
  hb_atomic(me, l, kind, mo, wrote);
  ring_push(me, kind, addr, size, oldv, newv, mo, wrote);
}

// =================================================================================================
// vthread lifecycle
// =================================================================================================
static void vt_finish(VT *me);

struct Sentinel {
  VT *vt = nullptr;
  ~Sentinel()
  {
    if (vt) vt_finish(vt);
  }
};
static thread_local Sentinel tl_sentinel;

static void *trampoline(void *p)
{
  VT *me = static_cast<VT *>(p);
  tl_vt = me;
  park(me->go);
  tl_sentinel.vt = me;  // constructed (and registered for destruction) before any simulated code runs
  me->started = true;
  me->fn(me->arg);
  return nullptr;  // thread_local destructors of the simulated code run now, still under the scheduler
}

static void vt_finish(VT *me)
{
  if (G.cfg.tso) sb_flush_all(me);
  G.step++;
  me->pend_kind = OP_FINISH;
  me->pend_addr = 0;
  me->state = kFinished;
  me->in_api = false;
  ccopy(G.Cfin[me->id], G.C[me->id]);
  G.finished++;
  progress();
  for (int i = 0; i < G.nvt; ++i) {
    VT &v = G.vts[i];
    if (v.state == kJoinWait && v.join_target == me->id) v.state = kRunnable;
  }
  tl_vt = nullptr;
  if (G.finished == G.nvt) {
    G.run_active = false;
    wake(G.done);
    return;
  }
  int next = choose(me);
  record_choice(next);
  G.last = next;
  G.res.switches++;
  G.cur = next;
  wake(G.vts[next].go);
}

int self() { return tl_vt ? tl_vt->id : -1; }
uint64_t seq() { return G.step; }
uint64_t now_ns() { return G.now; }
bool finished(int vt) { return G.vts[vt].state == kFinished; }

static int create_vt(Fn fn, void *arg, const char *name)
{
  if (G.nvt >= kMaxVT) abort_run(kStepCap, "runtime/too-many-vthreads", "kMaxVT exceeded");
  VT &v = G.vts[G.nvt];
  const int id = G.nvt;
  memset(static_cast<void *>(&v), 0, sizeof(VT));
  v.id = id;
  v.state = kRunnable;
  v.fn = fn;
  v.arg = arg;
  v.name = name;
  v.pend_kind = OP_START;
  v.prio = static_cast<int64_t>(G.rng.below(1u << 30)) + 16;
  G.nvt++;
  // HB: the child starts with the parent's clock
  if (tl_vt) {
    ccopy(G.C[id], G.C[tl_vt->id]);
    G.C[tl_vt->id][tl_vt->id]++;
  }
  G.C[id][id] = 1;
  pthread_attr_t at;
  pthread_attr_init(&at);
  pthread_attr_setstacksize(&at, 256 * 1024);
  tl_raw++;
  int rc = pthread_create(&v.th, &at, trampoline, &v);
  tl_raw--;
  pthread_attr_destroy(&at);
  if (rc != 0) {
    fprintf(stderr, "dsim: pthread_create failed: %d\n", rc);
    _exit(72);
  }
  return id;
}

int next_vt_id() { return G.nvt; }

int spawn(Fn fn, void *arg, const char *name)
{
  VT *me = tl_vt;
  int id = create_vt(fn, arg, name);
  if (me) sched_point(me, OP_SPAWN, 0);
  return id;
}

void join(int vt)
{
  VT *me = tl_vt;
  if (!me) return;
  if (G.vts[vt].state != kFinished) {
    me->state = kJoinWait;
    me->join_target = vt;
  }
  sched_point(me, OP_JOIN, 0);
  cjoin(G.C[me->id], G.Cfin[vt]);
}

void yield()
{
  VT *me = tl_vt;
  if (!me || tl_raw) return;
  sched_point(me, OP_YIELD, 0);
}

void wait_signal()
{
  VT *me = tl_vt;
  if (!me) return;
  if (me->pending_signals > 0) {
    me->pending_signals--;
  } else {
    me->state = kSigWait;
  }
  sched_point(me, OP_WAITSIG, 0);
}

void signal(int vt)
{
  VT &v = G.vts[vt];
  if (v.state == kSigWait) {
    v.state = kRunnable;
  } else {
    v.pending_signals++;
  }
  progress();
}

void op_begin(const char *ctx, int obj)
{
  VT *me = tl_vt;
  if (!me) return;
  me->ctx = ctx;
  me->obj = obj;
  if (!me->in_api) {
    me->in_api = true;
    G.api_overlap++;
    if (static_cast<uint64_t>(G.api_overlap) > G.res.max_api_overlap) G.res.max_api_overlap = G.api_overlap;
  }
  me->ro_steps = 0;
  me->nrs = 0;
  me->graced = false;
}
static void op_end_impl(bool drain);
void op_end() { op_end_impl(true); }
void op_end_keep_buffered() { op_end_impl(false); }
static void op_end_impl(bool drain)
{
  VT *me = tl_vt;
  if (!me) return;
  if (G.cfg.tso && drain) sb_flush_all(me);  // by default buffering is explored inside one API call only (DESIGN 11.8)
  if (me->in_api) {
    me->in_api = false;
    G.api_overlap--;
  }
  me->ro_steps = 0;
  me->nrs = 0;
  me->graced = false;
  progress();
}
void set_pos(int pos)
{
  if (tl_vt) tl_vt->pos = pos;
}
void watch_write(const void *addr, size_t len)
{
  VT *me = tl_vt;
  if (!me) return;
  me->w_lo = reinterpret_cast<uintptr_t>(addr);
  me->w_hi = me->w_lo + len;
  me->w_seq = 0;
  me->w_n = 0;
}
uint64_t watched_write_seq() { return tl_vt ? tl_vt->w_seq : 0; }
int watched_write_seqs(uint64_t *out, int max)
{
  if (!tl_vt) return 0;
  int n = tl_vt->w_n < max ? tl_vt->w_n : max;
  for (int i = 0; i < n; ++i) out[i] = tl_vt->w_all[i];
  return n;
}

Observer::Observer(uint64_t cap)
{
  tl_raw++;  // (TSO mode: raw loads of the observing vthread forward from its own store buffer, raw writes drain it first)
  if (tl_vt) {
    tl_vt->obs_cap = cap;
    tl_vt->obs_cnt = 0;
  }
}
Observer::~Observer() { tl_raw--; }
bool Observer::overflowed() const { return tl_vt && tl_vt->obs_cnt > tl_vt->obs_cap; }

void count_fault(int kind) { G.res.faults[kind]++; }
void probe(int id) { G.probes[id]++; }
uint64_t probe_count(int id) { return G.probes[id]; }
void note_nontrivial() { G.res.forced_nontrivial = true; }
void set_abort_callback(void (*cb)(const Result &)) { G.abort_cb = cb; }

// raw-mode atomic inside an observer scope: count and bail out of endless raw spinning
struct ObserverOverflow {};
static inline void raw_tick()
{
  VT *me = tl_vt;
  if (me && tl_raw && G.run_active && me->obs_cap && ++me->obs_cnt > me->obs_cap) {
    abort_run(kViolation, "observer/no-return",
              "an API call made by the oracle in observer scope did not return (the lock reports a holder the ghost state does not know)");
  }
}

// =================================================================================================
// crash handler
// =================================================================================================
static void on_signal(int sig)
{
  char m[256];
  VT *me = tl_vt;
  snprintf(m, sizeof(m), "signal %d in vt%d in '%s' at step %lu", sig, me ? me->id : -1, me && me->ctx ? me->ctx : "-",
           static_cast<unsigned long>(G.step));
  char cls[32];
  snprintf(cls, sizeof(cls), "crash/signal%d", sig);
  if (G.run_active || me) abort_run(kCrash, cls, m);
  _exit(73);
}

void pin_to_cpu(int cpu)
{
  cpu_set_t all, one;
  CPU_ZERO(&all);
  if (sched_getaffinity(0, sizeof(all), &all) != 0) return;
  int n = CPU_COUNT(&all);
  if (n <= 0) return;
  int want = cpu % n, k = 0;
  CPU_ZERO(&one);
  for (int i = 0; i < CPU_SETSIZE; ++i) {
    if (!CPU_ISSET(i, &all)) continue;
    if (k++ == want) {
      CPU_SET(i, &one);
      break;
    }
  }
  sched_setaffinity(0, sizeof(one), &one);
}

void init()
{
  void *p = mmap(reinterpret_cast<void *>(kArenaBase), kArenaSize, PROT_READ | PROT_WRITE,
                 MAP_PRIVATE | MAP_ANONYMOUS | MAP_NORESERVE | MAP_FIXED_NOREPLACE, -1, 0);
  if (p != reinterpret_cast<void *>(kArenaBase)) {
    fprintf(stderr, "dsim: cannot map the arena at its fixed address\n");
    _exit(74);
  }
  G.arena_top = kArenaBase;
  G.locs = static_cast<Loc *>(calloc(kLocCap, sizeof(Loc)));
  G.blocks = static_cast<Block *>(mmap(nullptr, kBlockCap * sizeof(Block), PROT_READ | PROT_WRITE,
                                       MAP_PRIVATE | MAP_ANONYMOUS | MAP_NORESERVE, -1, 0));
  G.sset_cap = 1u << 22;
  G.sset = static_cast<uint64_t *>(calloc(G.sset_cap, sizeof(uint64_t)));
  G.gen = 0;
  struct sigaction sa;
  memset(&sa, 0, sizeof(sa));
  sa.sa_handler = on_signal;
  sa.sa_flags = SA_NODEFER | SA_RESETHAND;
  for (int s : {SIGSEGV, SIGBUS, SIGFPE, SIGILL, SIGABRT}) sigaction(s, &sa, nullptr);
  // make the process multi-threaded once, so libstdc++ always takes the atomic reference-count path
  pthread_t t;
  pthread_create(&t, nullptr, [](void *) -> void * { return nullptr; }, nullptr);
  pthread_join(t, nullptr);
}

Result run(const Config &cfg, Fn fn, void *arg)
{
  // reset per-run state
  G.cfg = cfg;
  G.nvt = 0;
  G.finished = 0;
  G.step = 0;
  G.now = 0;
  G.rng = Rng(cfg.sched_seed);
  G.res = Result{};
  G.nchoices = 0;
  G.in_grace = false;
  G.grace_rr = -1;
  G.last = 0;
  G.gen++;
  G.nlocs = 0;
  if (G.gen == 0) {
    memset(G.locs, 0, kLocCap * sizeof(Loc));
    G.gen = 1;
  }
  // arena reset
  if (G.arena_top > kArenaBase + (64u << 20)) madvise(reinterpret_cast<void *>(kArenaBase), G.arena_top - kArenaBase, MADV_DONTNEED);
  G.arena_top = kArenaBase;
  G.nblocks = 0;
  memset(G.live_cnt, 0, sizeof(G.live_cnt));
  memset(G.live_bytes, 0, sizeof(G.live_bytes));
  memset(G.total_cnt, 0, sizeof(G.total_cnt));
  memset(G.uaf_policy, 0, sizeof(G.uaf_policy));
  memset(G.C, 0, sizeof(G.C));
  memset(G.Frel, 0, sizeof(G.Frel));
  memset(G.Facq, 0, sizeof(G.Facq));
  memset(G.Cfin, 0, sizeof(G.Cfin));
  memset(G.probes, 0, sizeof(G.probes));
  G.state_hash = 0;
  G.wr_lo = G.wr_hi = 0;
  G.wr_writes = 0;
  G.api_overlap = 0;
  G.nontrivial = false;
  G.nring = 0;
  for (int k = 0; k < 8; ++k) G.pct_points[k] = 1 + G.rng.below(cfg.pct_len > 0 ? cfg.pct_len : 1);
  G.done.store(0);
  G.run_active = true;
  create_vt(fn, arg, "main");
  G.cur = 0;
  wake(G.vts[0].go);
  park(G.done);
  for (int i = 0; i < G.nvt; ++i) pthread_join(G.vts[i].th, nullptr);
  finalize_result();
  return G.res;
}

}  // namespace dsim

// =================================================================================================
// the TSan ABI
// =================================================================================================
using namespace dsim;

extern "C" char __data_start, _end;

namespace
{
inline bool active() { return tl_vt != nullptr && tl_raw == 0 && G.run_active; }

template <typename T>
inline T raw_op(int kind, volatile T *a, T v)
{
  switch (kind) {
    case OP_LOAD: return __atomic_load_n(a, __ATOMIC_SEQ_CST);
    case OP_STORE: __atomic_store_n(a, v, __ATOMIC_SEQ_CST); return v;
    case OP_XCHG: return __atomic_exchange_n(a, v, __ATOMIC_SEQ_CST);
    case OP_FADD: return __atomic_fetch_add(a, v, __ATOMIC_SEQ_CST);
    case OP_FSUB: return __atomic_fetch_sub(a, v, __ATOMIC_SEQ_CST);
    case OP_FAND: return __atomic_fetch_and(a, v, __ATOMIC_SEQ_CST);
    case OP_FOR: return __atomic_fetch_or(a, v, __ATOMIC_SEQ_CST);
    case OP_FXOR: return __atomic_fetch_xor(a, v, __ATOMIC_SEQ_CST);
    case OP_FNAND: return __atomic_fetch_nand(a, v, __ATOMIC_SEQ_CST);
    default: return 0;
  }
}

template <typename T>
inline T apply(int kind, T old, T v)
{
  switch (kind) {
    case OP_STORE:
    case OP_XCHG: return v;
    case OP_FADD: return static_cast<T>(old + v);
    case OP_FSUB: return static_cast<T>(old - v);
    case OP_FAND: return static_cast<T>(old & v);
    case OP_FOR: return static_cast<T>(old | v);
    case OP_FXOR: return static_cast<T>(old ^ v);
    case OP_FNAND: return static_cast<T>(~(old & v));
    default: return old;
  }
}

template <typename T>
T atomic_rmw(int kind, volatile T *a, T v, int mo)
{
  if (!active()) {
    raw_tick();
    if (tl_vt != nullptr && G.run_active && G.cfg.tso && tl_vt->nsb > 0) {
      uint64_t fwd;
      if (kind == OP_LOAD) {
        if (sb_lookup(tl_vt, reinterpret_cast<uintptr_t>(a), sizeof(T), &fwd)) return static_cast<T>(fwd);
      } else {
        sb_flush_all(tl_vt);
      }
    }
    return raw_op<T>(kind, a, v);
  }
  VT *me = tl_vt;
  const auto addr = reinterpret_cast<uintptr_t>(a);
  check_access(addr, sizeof(T), "atomic access");
  sched_point(me, kind, addr);
  check_access(addr, sizeof(T), "atomic access");
  if (G.cfg.tso) {
    if (kind == OP_STORE && mo != 5 && me->in_api) {
      // x86: a non-seq_cst atomic store is a plain mov; it sits in the store buffer while the thread goes on
      if (me->nsb == 16) sb_flush_one(me);
      me->sb[me->nsb++] = VT::SBEnt{addr, static_cast<uint64_t>(v), static_cast<int>(sizeof(T)), mo};
      G.res.faults[kFStoreBuffered]++;
      ring_push(me, OP_STORE, addr, sizeof(T), 0, static_cast<uint64_t>(v), mo, false);
      return v;
    }
    if (kind == OP_LOAD) {
      uint64_t fwd;
      if (sb_lookup(me, addr, sizeof(T), &fwd)) {  // store-to-load forwarding from the own buffer
        post_atomic(me, kind, addr, sizeof(T), fwd, fwd, mo, false);
        return static_cast<T>(fwd);
      }
    } else {
      sb_before_rmw(me, addr, kind == OP_STORE ? 5 : mo);  // seq_cst store (xchg) and read-modify-writes drain the buffer first
    }
  }
  const T old = __atomic_load_n(a, __ATOMIC_SEQ_CST);
  if (kind == OP_LOAD) {
    post_atomic(me, kind, addr, sizeof(T), static_cast<uint64_t>(old), static_cast<uint64_t>(old), mo, false);
    return old;
  }
  const T nv = apply<T>(kind, old, v);
  __atomic_store_n(a, nv, __ATOMIC_SEQ_CST);
  post_atomic(me, kind, addr, sizeof(T), static_cast<uint64_t>(old), static_cast<uint64_t>(nv), mo, true);
  return old;
}

template <typename T>
int atomic_cas(bool weak, volatile T *a, T *expected, T desired, int mo, int fmo)
{
  if (!active()) {
    raw_tick();
    if (tl_vt != nullptr && G.run_active && G.cfg.tso && tl_vt->nsb > 0) sb_flush_all(tl_vt);
    return __atomic_compare_exchange_n(a, expected, desired, false, __ATOMIC_SEQ_CST, __ATOMIC_SEQ_CST);
  }
  VT *me = tl_vt;
  const auto addr = reinterpret_cast<uintptr_t>(a);
  const int kind = weak ? OP_CAS_W : OP_CAS_S;
  check_access(addr, sizeof(T), "atomic access");
  sched_point(me, kind, addr);
  check_access(addr, sizeof(T), "atomic access");
  if (G.cfg.tso) sb_before_rmw(me, addr, mo);
  const T old = __atomic_load_n(a, __ATOMIC_SEQ_CST);
  if (old == *expected) {
    bool spurious = false;
    if (weak && G.cfg.cas_spurious_permille > 0) {
      if (me->spur_addr != addr) {
        me->spur_addr = addr;
        me->spur_run = 0;
      }
      if (me->spur_run < 2 && fault_draw(me, kFCasSpurious) % 1000 < static_cast<uint64_t>(G.cfg.cas_spurious_permille)) {
        spurious = true;
        me->spur_run++;
        G.res.faults[kFCasSpurious]++;
      } else {
        me->spur_run = 0;
      }
    }
    if (!spurious) {
      __atomic_store_n(a, desired, __ATOMIC_SEQ_CST);
      post_atomic(me, kind, addr, sizeof(T), static_cast<uint64_t>(old), static_cast<uint64_t>(desired), mo, true);
      return 1;
    }
    // spurious failure: no write, `expected` keeps the (equal) value that was read
    post_atomic(me, kind, addr, sizeof(T), static_cast<uint64_t>(old), static_cast<uint64_t>(old), fmo, false);
    return 0;
  }
  *expected = old;
  post_atomic(me, kind, addr, sizeof(T), static_cast<uint64_t>(old), static_cast<uint64_t>(old), fmo, false);
  return 0;
}

inline void plain_access(void *p, size_t n, bool write)
{
  VT *me = tl_vt;
  if (me == nullptr || !G.run_active) return;
  const auto a = reinterpret_cast<uintptr_t>(p);
  if (a - kArenaBase < kArenaSize) check_access(a, n, write ? "write" : "read");
  if (G.wr_hi && a < G.wr_hi && a + n > G.wr_lo && write) G.wr_writes++;
  // mode `plain` (C19): inside an API bracket every plain access to memory that other vthreads can reach
  // (arena heap, static storage) is a scheduling point
  if (G.cfg.plain_sched && tl_raw == 0 && me->in_api &&
      (a - kArenaBase < kArenaSize || (a >= reinterpret_cast<uintptr_t>(&__data_start) && a < reinterpret_cast<uintptr_t>(&_end)))) {
    sched_point(me, write ? OP_PLAIN_W : OP_PLAIN_R, a);
    if (a - kArenaBase < kArenaSize) check_access(a, n, write ? "write" : "read");  // it may have been freed while we were parked
    G.res.faults[kFPlainPreempt]++;
    uint64_t cur = 0;  // value in memory when the access is performed (before it, for a write)
    if (n == 8) cur = *reinterpret_cast<volatile uint64_t *>(a);
    else if (n == 4) cur = *reinterpret_cast<volatile uint32_t *>(a);
    else if (n == 1) cur = *reinterpret_cast<volatile uint8_t *>(a);
    ring_push(me, write ? OP_PLAIN_W : OP_PLAIN_R, a, static_cast<int>(n), cur, cur, 0, write, false);
  }
}
}  // namespace

extern "C" {
void __tsan_init() {}
void __tsan_func_entry(void *) {}
void __tsan_func_exit() {}
void __tsan_vptr_update(void **p, void *) { plain_access(p, 8, true); }
void __tsan_vptr_read(void **p) { plain_access(p, 8, false); }
#define DSIM_PLAIN(n)                                                          \
  void __tsan_read##n(void *p) { plain_access(p, n, false); }                  \
  void __tsan_write##n(void *p) { plain_access(p, n, true); }                  \
  void __tsan_unaligned_read##n(void *p) { plain_access(p, n, false); }        \
  void __tsan_unaligned_write##n(void *p) { plain_access(p, n, true); }        \
  void __tsan_read##n##_pc(void *p, void *) { plain_access(p, n, false); }     \
  void __tsan_write##n##_pc(void *p, void *) { plain_access(p, n, true); }
DSIM_PLAIN(1)
DSIM_PLAIN(2)
DSIM_PLAIN(4)
DSIM_PLAIN(8)
DSIM_PLAIN(16)
void __tsan_read_range(void *p, unsigned long n) { plain_access(p, n, false); }
void __tsan_write_range(void *p, unsigned long n) { plain_access(p, n, true); }
void __tsan_read_range_pc(void *p, unsigned long n, void *) { plain_access(p, n, false); }
void __tsan_write_range_pc(void *p, unsigned long n, void *) { plain_access(p, n, true); }

#define DSIM_ATOMIC(bits, T)                                                                                          \
  T __tsan_atomic##bits##_load(const volatile T *a, int mo) { return atomic_rmw<T>(OP_LOAD, const_cast<volatile T *>(a), 0, mo); } \
  void __tsan_atomic##bits##_store(volatile T *a, T v, int mo) { atomic_rmw<T>(OP_STORE, a, v, mo); }                 \
  T __tsan_atomic##bits##_exchange(volatile T *a, T v, int mo) { return atomic_rmw<T>(OP_XCHG, a, v, mo); }           \
  T __tsan_atomic##bits##_fetch_add(volatile T *a, T v, int mo) { return atomic_rmw<T>(OP_FADD, a, v, mo); }          \
  T __tsan_atomic##bits##_fetch_sub(volatile T *a, T v, int mo) { return atomic_rmw<T>(OP_FSUB, a, v, mo); }          \
  T __tsan_atomic##bits##_fetch_and(volatile T *a, T v, int mo) { return atomic_rmw<T>(OP_FAND, a, v, mo); }          \
  T __tsan_atomic##bits##_fetch_or(volatile T *a, T v, int mo) { return atomic_rmw<T>(OP_FOR, a, v, mo); }            \
  T __tsan_atomic##bits##_fetch_xor(volatile T *a, T v, int mo) { return atomic_rmw<T>(OP_FXOR, a, v, mo); }          \
  T __tsan_atomic##bits##_fetch_nand(volatile T *a, T v, int mo) { return atomic_rmw<T>(OP_FNAND, a, v, mo); }        \
  int __tsan_atomic##bits##_compare_exchange_strong(volatile T *a, T *c, T v, int mo, int fmo)                        \
  {                                                                                                                   \
    return atomic_cas<T>(false, a, c, v, mo, fmo);                                                                    \
  }                                                                                                                   \
  int __tsan_atomic##bits##_compare_exchange_weak(volatile T *a, T *c, T v, int mo, int fmo)                          \
  {                                                                                                                   \
    return atomic_cas<T>(true, a, c, v, mo, fmo);                                                                     \
  }                                                                                                                   \
  T __tsan_atomic##bits##_compare_exchange_val(volatile T *a, T c, T v, int mo, int fmo)                              \
  {                                                                                                                   \
    atomic_cas<T>(false, a, &c, v, mo, fmo);                                                                          \
    return c;                                                                                                         \
  }
DSIM_ATOMIC(8, uint8_t)
DSIM_ATOMIC(16, uint16_t)
DSIM_ATOMIC(32, uint32_t)
DSIM_ATOMIC(64, uint64_t)

void __tsan_atomic_thread_fence(int mo)
{
  if (!active()) {
    raw_tick();
    __atomic_thread_fence(__ATOMIC_SEQ_CST);
    return;
  }
  VT *me = tl_vt;
  sched_point(me, OP_FENCE, 0);
  if (G.cfg.tso && (mo == 5 || (G.cfg.weak_stores && (mo == 3 || mo == 4)))) sb_flush_all(me);  // mfence; release fences matter in weak mode
  __atomic_thread_fence(__ATOMIC_SEQ_CST);
  hb_fence(me, mo);
  me->ro_steps++;
  me->rd_ctr++;
  ring_push(me, OP_FENCE, 0, 0, 0, 0, mo, false);
}
void __tsan_atomic_signal_fence(int) {}

// ---- interposed libc entry points (defined in the executable, so they win symbol resolution) ----
int nanosleep(const struct timespec *req, struct timespec *rem)
{
  if (tl_vt == nullptr || !G.run_active) {
    return static_cast<int>(syscall(SYS_nanosleep, req, rem));
  }
  if (tl_raw) {
    raw_tick();
    return 0;
  }
  VT *me = tl_vt;
  uint64_t d = static_cast<uint64_t>(req->tv_sec) * 1000000000ULL + static_cast<uint64_t>(req->tv_nsec);
  bool eintr = false;
  // no sleep faults while a deadlock verdict is being prepared: the grace phase gives every spinning thread a bounded number of steps to
  // show progress, and a thread that oversleeps by a factor of up to 10^4 inside it would use up the others' budget without ever being
  // scheduled (seen once: retry number 0, two spurious CAS failures in a row, then an 80 ms oversleep -> false deadlock verdict)
  const bool sleep_faults = !G.in_grace && !me->graced;
  if (sleep_faults && G.cfg.oversleep_permille > 0 && fault_draw(me, kFOversleep) % 1000 < static_cast<uint64_t>(G.cfg.oversleep_permille)) {
    d = d * (1 + fault_draw(me, kFOversleep) % 10000);
    G.res.faults[kFOversleep]++;
  }
  if (sleep_faults && G.cfg.eintr_permille > 0 && rem != nullptr && fault_draw(me, kFEintr) % 1000 < static_cast<uint64_t>(G.cfg.eintr_permille)) {
    eintr = true;
    G.res.faults[kFEintr]++;
  }
  uint64_t slept = eintr ? d / 2 : d;
  me->ro_steps++;
  me->rd_ctr++;
  if (should_spin_block(me)) {
    me->state = kSpinBlocked;
    G.res.spin_blocks++;
  } else {
    me->state = kSleeping;
    me->wake_ns = G.now + slept;
  }
  sched_point(me, OP_SLEEP, 0);
  ring_push(me, OP_SLEEP, 0, 0, slept, 0, 0, false);
  if (eintr) {
    uint64_t left = d - slept;
    rem->tv_sec = static_cast<time_t>(left / 1000000000ULL);
    rem->tv_nsec = static_cast<long>(left % 1000000000ULL);
    errno = EINTR;
    return -1;
  }
  return 0;
}

int sched_yield(void)
{
  if (tl_vt && G.run_active && !tl_raw) {
    sched_point(tl_vt, OP_YIELD, 0);
    return 0;
  }
  return static_cast<int>(syscall(SYS_sched_yield));
}
}  // extern "C"

// ---- global allocation functions ------------------------------------------------------------------
void *operator new(size_t n) { return dsim::dsim_new(n, 16); }
void *operator new[](size_t n) { return dsim::dsim_new(n, 16); }
void *operator new(size_t n, const std::nothrow_t &) noexcept { return dsim::dsim_new(n, 16); }
void *operator new[](size_t n, const std::nothrow_t &) noexcept { return dsim::dsim_new(n, 16); }
void *operator new(size_t n, std::align_val_t a) { return dsim::dsim_new(n, static_cast<size_t>(a)); }
void *operator new[](size_t n, std::align_val_t a) { return dsim::dsim_new(n, static_cast<size_t>(a)); }
void *operator new(size_t n, std::align_val_t a, const std::nothrow_t &) noexcept { return dsim::dsim_new(n, static_cast<size_t>(a)); }
void *operator new[](size_t n, std::align_val_t a, const std::nothrow_t &) noexcept { return dsim::dsim_new(n, static_cast<size_t>(a)); }
void operator delete(void *p) noexcept { dsim::dsim_delete(p); }
void operator delete[](void *p) noexcept { dsim::dsim_delete(p); }
void operator delete(void *p, size_t) noexcept { dsim::dsim_delete(p); }
void operator delete[](void *p, size_t) noexcept { dsim::dsim_delete(p); }
void operator delete(void *p, std::align_val_t) noexcept { dsim::dsim_delete(p); }
void operator delete[](void *p, std::align_val_t) noexcept { dsim::dsim_delete(p); }
void operator delete(void *p, size_t, std::align_val_t) noexcept { dsim::dsim_delete(p); }
void operator delete[](void *p, size_t, std::align_val_t) noexcept { dsim::dsim_delete(p); }
void operator delete(void *p, const std::nothrow_t &) noexcept { dsim::dsim_delete(p); }
void operator delete[](void *p, const std::nothrow_t &) noexcept { dsim::dsim_delete(p); }
void operator delete(void *p, std::align_val_t, const std::nothrow_t &) noexcept { dsim::dsim_delete(p); }
void operator delete[](void *p, std::align_val_t, const std::nothrow_t &) noexcept { dsim::dsim_delete(p); }
