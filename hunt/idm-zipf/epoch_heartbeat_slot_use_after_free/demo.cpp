// Outside the assigned focus, found while following the heartbeats into their only in-library consumer:
// EpochManager keeps the heartbeat of the current owner of each thread ID in a PLAIN std::weak_ptr
// (tls_fields_[id].heartbeat).  The worker that (re)uses the ID assigns it, the coordinator reads it
// concurrently in ForwardGlobalEpoch -> data race, and on ID reuse a heap-use-after-free of the previous
// owner's shared_ptr control block.
#include <atomic>
#include <cstdio>
#include <thread>
#include <vector>

#include "dbgroup/thread/epoch_manager.hpp"

using dbgroup::thread::EpochManager;

int
main()
{
  EpochManager em{};
  std::atomic_bool stop{false};
  std::thread coordinator{[&] {
    while (!stop.load()) em.ForwardGlobalEpoch();  // a single coordinator, as documented
  }};
  // short-lived workers: each creates (and drops) one guard and exits; IDs get reused all the time
  for (int round = 0; round < 20000; ++round) {
    std::vector<std::thread> workers;
    for (int i = 0; i < 8; ++i) {
      workers.emplace_back([&] { auto guard = em.CreateEpochGuard(); });
    }
    for (auto &t : workers) t.join();
  }
  stop.store(true);
  coordinator.join();
  std::printf("done without a sanitizer report\n");
  return 0;
}
