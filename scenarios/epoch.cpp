// EpochManager scenarios: C04 (a live guard pins its epoch), C16 (epoch advances by one, reclamation can progress),
// C17 (the list handed out is the caller's own and stable), C20 (sequential reference model, memory bounded and freed).
#include <algorithm>
#include <memory>
#include <new>
#include <optional>
#include <string>
#include <vector>

#include "common.hpp"
#include "dbgroup/thread/epoch_manager.hpp"

namespace sim
{
void set_probe_hash(size_t h);

namespace
{
using dbgroup::thread::EpochGuard;
using dbgroup::thread::EpochManager;
constexpr size_t kN = dbgroup::thread::kMaxThreadNum;
constexpr size_t kInitial = EpochManager::kInitialEpoch;

enum Profile : int { kPin = 0, kAdvance = 1, kLists = 2, kSequential = 3, kStaleNode = 4, kPlainSteps = 5, kPlainPin = 6 };
enum Kind : int {
  // worker operations (concurrent profiles)
  kGuard = 0,     // a = hold yields, b = 1: GetProtectedEpochs (list checks) / 0: CreateEpochGuard, c = re-reads of the list
  kReadings,      // a = number of GetCurrentEpoch/GetMinEpoch reading pairs
  kRestart,       // the vthread exits; a fresh vthread (possibly reusing the ID) continues with the remaining operations
  kGuardMove,     // guard created, move-constructed and move-assigned while alive (still pins)
  // coordinator operations
  kForward,       // a = number of ForwardGlobalEpoch calls, b = yields between them, c = burst of forwards executed first as one
                  //     uninterrupted block (a legal schedule: nobody else happens to run; lets a stalled worker miss hundreds of epochs)
  // sequential history (profile 3), executed one at a time
  kSeqForward,    // a = m forwards
  kSeqCreate,     // obj = worker slot
  kSeqDestroy,    // obj = worker slot
  kSeqRestart,    // obj = worker slot (exit, join, fresh thread)
  kGuardReassign, // worker: a live guard of this manager is overwritten by move assignment with a guard of a SECOND manager
  kSeqRecreate,   // sequential histories: all guards destroyed, the manager destroyed and a new one constructed at the same address
                  // while the worker threads (and their thread IDs) live on
  kKinds
};

constexpr int kTagCtor = 2, kTagForward = 3, kTagGuard = 4;

enum Probe : int {
  pNodeCreated = 0, pNodeRetired, pWorkerAcrossForwards, pIdReuse, pGuardSeenByForward, pQuiescentForward, pListChecked, pGuardStraddledForward,
  pRestart, pPinnedAcrossBoundary, pBurst, pUnobservedForward, pGuardReleasedByAssign, pManagerRecreated, pForwardByGuardHolder, pProbes
};
const char *const kProbeNames[] = {"forward_created_list_node", "forward_retired_list_node", "guard_alive_across_two_or_more_forwards",
                                   "slot_reused_by_new_thread", "live_guard_checked_after_forward", "quiescent_forward_checked",
                                   "protected_list_checked", "guard_creation_overlapped_forward", "worker_exit_and_restart",
                                   "guard_pinned_across_node_boundary", "coordinator_forward_burst", "forward_followed_by_forward_without_observation",
                                   "guard_released_by_assigning_empty_guard", "manager_destroyed_and_recreated_in_place",
                                   "forward_called_by_a_thread_that_holds_a_guard", nullptr};

std::string g_prop;
bool tagged(const char *tags) { return g_prop.empty() || strstr(tags, g_prop.c_str()) != nullptr; }

struct GuardRec {
  int vt;
  size_t epoch;
  uint64_t forwards_at_creation;
  bool alive;
};

struct State {
  const Program *prog = nullptr;
  EpochManager *mgr = nullptr;
  EpochManager *mgr2 = nullptr;        // only a source of guards for kGuardReassign
  std::vector<GuardRec> guards;        // ghost set G (complete guards whose destruction has not begun)
  uint64_t guard_activity = 0;         // bumped at every CreateEpochGuard invocation and at every completed destruction
  int creates_in_flight = 0;
  int destroys_in_flight = 0;          // destruction has begun (ghost unregistered) but LeaveEpoch may not have run yet
  uint64_t forwards_done = 0;          // completed ForwardGlobalEpoch calls (including the prologue)
  uint64_t forwards_started = 0;
  size_t max_min_seen = 0;             // largest GetMinEpoch value observed so far
  size_t last_cur[dsim::kMaxVT] = {0}; // last GetCurrentEpoch reading per vthread
  uint64_t other_events = 0;
  size_t nodes_seen_max = 0;
  size_t total_node_allocs_before = 0;
  // sequential mode
  int slot_vt[8] = {0};
  int slot_cmd[8] = {0};
  bool slot_has_guard[8] = {false};
  size_t slot_epoch[8] = {0};
  bool exited_any = false;
  std::vector<std::pair<int, int>> succ;  // (exiting vthread, its successor)
};
State *S = nullptr;

#define ORACLE(tags, cls, ...)                      \
  do {                                              \
    if (tagged(tags)) {                             \
      char _c[160];                                 \
      snprintf(_c, sizeof(_c), "%s %s", tags, cls); \
      dsim::fail(_c, __VA_ARGS__);                  \
    } else {                                        \
      S->other_events++;                            \
    }                                               \
  } while (0)

size_t live_nodes()
{
  return dsim::heap_live_aligned(kTagCtor, 4096, 64) + dsim::heap_live_aligned(kTagForward, 4096, 64);
}

// ---- readings (C16) ------------------------------------------------------------------------------
void reading_current(const char *who)
{
  const int me = dsim::self();
  dsim::op_begin("GetCurrentEpoch", 0);
  const size_t cur = S->mgr->GetCurrentEpoch();
  dsim::op_end();
  if (cur < S->last_cur[me]) {
    ORACLE("[C16]", "current-epoch-decreased", " :: %s vt%d read GetCurrentEpoch %zu after %zu", who, me, cur, S->last_cur[me]);
  }
  S->last_cur[me] = cur;
  if (cur < S->max_min_seen) {
    ORACLE("[C16]", "min-epoch-exceeds-later-current", " :: GetCurrentEpoch returned %zu to vt%d after GetMinEpoch had returned %zu", cur, me,
           S->max_min_seen);
  }
}
size_t reading_min()
{
  dsim::op_begin("GetMinEpoch", 0);
  const size_t m = S->mgr->GetMinEpoch();
  dsim::op_end();
  if (m > S->max_min_seen) S->max_min_seen = m;
  return m;
}

// ---- list checks (C17) ---------------------------------------------------------------------------
void check_list_shape(const std::vector<size_t> &copy, size_t guard_epoch, const char *when)
{
  dsim::probe(pListChecked);
  if (copy.empty()) {
    ORACLE("[C17]", "list-empty", " :: GetProtectedEpochs handed vt%d an empty list for epoch %zu (%s)", dsim::self(), guard_epoch, when);
    return;
  }
  for (size_t i = 1; i < copy.size(); ++i) {
    if (!(copy[i - 1] > copy[i])) {
      ORACLE("[C17]", "list-not-strictly-descending", " :: list of vt%d for epoch %zu has %zu before %zu (%s)", dsim::self(), guard_epoch, copy[i - 1],
             copy[i], when);
      return;
    }
  }
  if (copy.front() != guard_epoch) {
    ORACLE("[C17]", "list-belongs-to-another-epoch", " :: vt%d holds a guard for epoch %zu but was handed the list that starts with %zu (%s)", dsim::self(),
           guard_epoch, copy.front(), when);
    return;
  }
  if (guard_epoch > kInitial && std::find(copy.begin(), copy.end(), guard_epoch - 1) == copy.end()) {
    ORACLE("[C17]", "list-misses-preceding-epoch", " :: list of vt%d for epoch %zu does not contain %zu (%s)", dsim::self(), guard_epoch,
           guard_epoch - 1, when);
  }
}

// ---- worker operations -----------------------------------------------------------------------------
size_t ghost_register(size_t epoch)
{
  S->guards.push_back(GuardRec{dsim::self(), epoch, S->forwards_done, true});
  return S->guards.size() - 1;
}
void ghost_unregister(size_t idx)
{
  GuardRec &g = S->guards[idx];
  if (S->forwards_done >= g.forwards_at_creation + 2) dsim::probe(pWorkerAcrossForwards);
  if ((g.epoch / 256) != (S->last_cur[0] / 256) && S->last_cur[0] != 0) dsim::probe(pPinnedAcrossBoundary);
  g.alive = false;
  S->destroys_in_flight++;
}

void op_guard(const Op &op)
{
  const uint64_t fs = S->forwards_started, fd = S->forwards_done;
  S->guard_activity++;
  S->creates_in_flight++;
  dsim::set_alloc_tag(kTagGuard);
  if (op.b) {
    dsim::op_begin("GetProtectedEpochs", 0);
    auto pr = S->mgr->GetProtectedEpochs();
    dsim::op_end_keep_buffered();  // C04 requires the pin to be visible once the call has returned
    dsim::set_alloc_tag(0);
    if (S->forwards_started != fs || fs != fd) dsim::probe(pGuardStraddledForward);
    EpochGuard &g = pr.first;
    const std::vector<size_t> &list = pr.second;
    const size_t e = g.GetProtectedEpoch();
    const size_t gi = ghost_register(e);
    S->creates_in_flight--;  // only now: the creation counts as in flight until the ghost knows the guard
    std::vector<size_t> copy(list.begin(), list.end());
    check_list_shape(copy, e, "at return");
    for (int64_t r = 0; r <= op.c; ++r) {
      for (int64_t i = 0; i <= op.a; ++i) dsim::yield();
      std::vector<size_t> again(list.begin(), list.end());
      if (again != copy) {
        ORACLE("[C17]", "list-modified-while-guard-alive", " :: the list handed to vt%d for epoch %zu changed while the guard was alive (size %zu -> %zu)",
               dsim::self(), e, copy.size(), again.size());
      }
      if (g.GetProtectedEpoch() != e) {
        ORACLE("[C04]", "guard-epoch-changed", " :: the guard of vt%d reported epoch %zu at creation and %zu later", dsim::self(), e, g.GetProtectedEpoch());
      }
    }
    ghost_unregister(gi);
    dsim::op_begin("destroy guard", 0);
  } else {
    dsim::op_begin("CreateEpochGuard", 0);
    EpochGuard g = S->mgr->CreateEpochGuard();
    dsim::op_end_keep_buffered();
    dsim::set_alloc_tag(0);
    if (S->forwards_started != fs || fs != fd) dsim::probe(pGuardStraddledForward);
    const size_t e = g.GetProtectedEpoch();
    const size_t gi = ghost_register(e);
    S->creates_in_flight--;
    for (int64_t i = 0; i <= op.a; ++i) dsim::yield();
    if (g.GetProtectedEpoch() != e) {
      ORACLE("[C04]", "guard-epoch-changed", " :: the guard of vt%d reported epoch %zu at creation and %zu later", dsim::self(), e, g.GetProtectedEpoch());
    }
    ghost_unregister(gi);
    dsim::op_begin("destroy guard", 0);
  }
  dsim::op_end();
  S->destroys_in_flight--;
  S->guard_activity++;
}

void op_guard_move(const Op &op)
{
  bool released_early = false;
  S->guard_activity++;
  S->creates_in_flight++;
  dsim::set_alloc_tag(kTagGuard);
  {
    dsim::op_begin("CreateEpochGuard", 0);
    EpochGuard g = S->mgr->CreateEpochGuard();
    dsim::op_end_keep_buffered();
    dsim::set_alloc_tag(0);
    const size_t e = g.GetProtectedEpoch();
    const size_t gi = ghost_register(e);
    S->creates_in_flight--;
    dsim::yield();
    EpochGuard h{std::move(g)};
    for (int64_t i = 0; i <= op.a; ++i) dsim::yield();
    EpochGuard k;
    k = std::move(h);
    dsim::yield();
    if (k.GetProtectedEpoch() != e) {
      ORACLE("[C04]", "guard-epoch-changed", " :: the moved guard of vt%d reported epoch %zu at creation and %zu later", dsim::self(), e,
             k.GetProtectedEpoch());
    }
    ghost_unregister(gi);
    if (op.b >= 1) {
      // the pin ends when an empty guard is move-assigned over the engaged one; the guard objects live on and pin nothing (a pin
      // that survives is found by the quiescent-forward checks, at the latest by the final one)
      dsim::op_begin("release guard by move-assigning an empty guard", 0);
      k = EpochGuard{};
      dsim::op_end();
      S->destroys_in_flight--;
      S->guard_activity++;
      dsim::probe(pGuardReleasedByAssign);
      if (op.b >= 2) {
        EpochGuard m{std::move(k)};  // an empty guard moved around: still pins nothing
        k = std::move(m);
      }
      for (int64_t i = 0; i <= op.a; ++i) dsim::yield();
      dsim::op_begin("destroy empty guards", 0);
      released_early = true;
    } else {
      dsim::op_begin("destroy guard", 0);
    }
  }
  dsim::op_end();
  if (!released_early) {
    S->destroys_in_flight--;
    S->guard_activity++;
  }
}

// the old grant ends when the guard is overwritten: the pin on this manager must be released by the move assignment
void op_guard_reassign(const Op &op)
{
  S->guard_activity++;
  S->creates_in_flight++;
  dsim::set_alloc_tag(kTagGuard);
  {
    dsim::op_begin("CreateEpochGuard", 0);
    EpochGuard g = S->mgr->CreateEpochGuard();
    dsim::op_end_keep_buffered();
    const size_t e = g.GetProtectedEpoch();
    const size_t gi = ghost_register(e);
    S->creates_in_flight--;
    for (int64_t i = 0; i <= op.a; ++i) dsim::yield();
    ghost_unregister(gi);
    dsim::op_begin("move-assign guard of another manager", 0);
    g = S->mgr2->CreateEpochGuard();
    dsim::op_end();
    S->destroys_in_flight--;
    S->guard_activity++;
    dsim::yield();
    dsim::op_begin("destroy guard", 0);
  }
  dsim::op_end();
  dsim::set_alloc_tag(0);
}

struct WArg {
  int slot;
  size_t from;  // first operation to execute
  size_t probe_hash;
};

void worker_fn(void *p);

void run_worker_ops(WArg *w)
{
  const auto &ops = S->prog->threads[static_cast<size_t>(w->slot)];
  for (size_t i = w->from; i < ops.size(); ++i) {
    const Op &op = ops[i];
    dsim::set_pos(static_cast<int>(i) + 1);
    switch (op.kind) {
      case kGuard: op_guard(op); break;
      case kGuardMove: op_guard_move(op); break;
      case kGuardReassign: op_guard_reassign(op); break;
      case kReadings:
        for (int64_t k = 0; k <= op.a; ++k) {
          reading_current("worker");
          reading_min();
          dsim::yield();
        }
        break;
      case kRestart: {
        // exit; a fresh thread continues (it may be given the ID this thread is about to release)
        auto *nw = new WArg{w->slot, i + 1, w->probe_hash + static_cast<size_t>(op.a)};
        dsim::count_fault(dsim::kFThreadExit);
        dsim::count_fault(dsim::kFThreadRestart);
        dsim::probe(pRestart);
        S->exited_any = true;
        S->slot_vt[w->slot] = dsim::next_vt_id();  // registered before spawn's scheduling point
        S->succ.push_back({dsim::self(), dsim::next_vt_id()});
        dsim::spawn(worker_fn, nw, "worker'");
        dsim::op_begin("thread-exit cleanup", 0);
        return;
      }
      default: break;
    }
  }
  dsim::set_pos(999);
  dsim::op_begin("thread-exit cleanup", 0);
}

void worker_fn(void *p)
{
  auto *w = static_cast<WArg *>(p);
  set_probe_hash(w->probe_hash);
  run_worker_ops(w);
}

// ---- coordinator ---------------------------------------------------------------------------------
// the list published for the current epoch and GetMinEpoch, read by the coordinator in observer scope
struct Published {
  std::vector<size_t> list;
  size_t min = 0;
  size_t cur = 0;
};
Published read_published()
{
  Published p;
  dsim::Observer ob(1u << 20);
  dsim::set_alloc_tag(kTagGuard);
  {
    auto pr = S->mgr->GetProtectedEpochs();
    p.list.assign(pr.second.begin(), pr.second.end());
    p.cur = pr.first.GetProtectedEpoch();
  }
  dsim::set_alloc_tag(0);
  p.min = S->mgr->GetMinEpoch();
  return p;
}

// observe = false: the next call follows at once.  Everything the oracle does between two forwards (GetProtectedEpochs creates a guard
// on the coordinator's slot) writes, hence drains the coordinator's store buffer in TSO runs; without it the stores of one forward can
// still be buffered while the next forward scans the slots.
void forward_once(bool concurrent, bool observe = true)
{
  // snapshot of the complete, live guards at the start of the call
  std::vector<size_t> snap;
  for (size_t i = 0; i < S->guards.size(); ++i)
    if (S->guards[i].alive) snap.push_back(i);
  const bool quiet_at_start = snap.empty() && S->creates_in_flight == 0 && S->destroys_in_flight == 0;
  const uint64_t act = S->guard_activity;
  size_t before;
  {
    dsim::Observer ob;
    before = S->mgr->GetCurrentEpoch();
  }
  const size_t nodes_before = live_nodes();
  S->forwards_started++;
  dsim::set_alloc_tag(kTagForward);
  dsim::op_begin("ForwardGlobalEpoch", 0);
  S->mgr->ForwardGlobalEpoch();
  dsim::op_end_keep_buffered();  // TSO runs: the new epoch must be visible when the call returns (the code fences), min_epoch_ need not
  dsim::set_alloc_tag(0);
  S->forwards_done++;
  const size_t nodes_after = live_nodes();
  if (nodes_after > nodes_before) dsim::probe(pNodeCreated);
  if (nodes_after < nodes_before || (((before + 1) & 255) == 0 && nodes_after <= nodes_before)) dsim::probe(pNodeRetired);
  size_t after;
  {
    dsim::Observer ob;
    after = S->mgr->GetCurrentEpoch();
  }
  if (after != before + 1) {
    ORACLE("[C16]", "epoch-not-advanced-by-one", " :: GetCurrentEpoch was %zu before ForwardGlobalEpoch and %zu after it", before, after);
  }
  S->last_cur[0] = after;
  if (!observe) {
    dsim::probe(pUnobservedForward);
    return;
  }
  const Published pub = read_published();
  if (pub.min > S->max_min_seen) S->max_min_seen = pub.min;
  if (pub.min > after) {
    ORACLE("[C16]", "min-epoch-exceeds-current", " :: GetMinEpoch is %zu while GetCurrentEpoch is %zu", pub.min, after);
  }
  // C04: every guard of the snapshot that is still alive is covered by the list published for the new epoch
  for (size_t gi : snap) {
    const GuardRec &g = S->guards[gi];
    if (!g.alive) continue;
    dsim::probe(pGuardSeenByForward);
    if (std::find(pub.list.begin(), pub.list.end(), g.epoch) == pub.list.end()) {
      ORACLE("[C04]", "live-guard-epoch-not-in-published-list",
             " :: the guard of vt%d pins epoch %zu, was complete before ForwardGlobalEpoch (-> %zu) started and is still alive, but the published list does not contain it",
             g.vt, g.epoch, after);
    }
    if (pub.min > g.epoch) {
      ORACLE("[C04]", "min-epoch-exceeds-live-guard", " :: GetMinEpoch is %zu although the live guard of vt%d pins epoch %zu", pub.min, g.vt, g.epoch);
    }
  }
  // C16: a forward that ran with no guard anywhere publishes exactly {current, current-1}
  if (quiet_at_start && S->guard_activity == act && S->creates_in_flight == 0 && concurrent) {
    dsim::probe(pQuiescentForward);
    if (!(pub.list.size() == 2 && pub.list[0] == after && pub.list[1] == after - 1) || pub.min != after - 1) {
      ORACLE("[C16]", "quiescent-forward-keeps-pins", " :: no guard existed during ForwardGlobalEpoch (-> %zu) but the list has %zu entries (first %zu, last %zu) and GetMinEpoch is %zu",
             after, pub.list.size(), pub.list.empty() ? 0 : pub.list.front(), pub.list.empty() ? 0 : pub.list.back(), pub.min);
    }
  }
}

void prologue(int64_t forwards)
{
  // sequential prologue: real code, scheduler bypassed (nothing else runs yet)
  dsim::Observer ob(1ull << 40);
  dsim::set_alloc_tag(kTagForward);
  for (int64_t i = 0; i < forwards; ++i) S->mgr->ForwardGlobalEpoch();
  dsim::set_alloc_tag(0);
  S->forwards_done += static_cast<uint64_t>(forwards);
  S->forwards_started += static_cast<uint64_t>(forwards);
}

void final_quiescent_check()
{
  // all guards are gone: one more complete forward, then the list is exactly {cur, cur-1}
  set_phase("final");
  forward_once(false);
  const Published pub = read_published();
  size_t cur;
  {
    dsim::Observer ob;
    cur = S->mgr->GetCurrentEpoch();
  }
  dsim::probe(pQuiescentForward);
  if (!(pub.list.size() == 2 && pub.list[0] == cur && pub.list[1] == cur - 1) || pub.min != cur - 1) {
    ORACLE("[C16]", "destroyed-guard-still-pins", " :: all guards are destroyed and a complete ForwardGlobalEpoch (-> %zu) ran, but the list has %zu entries (last %zu) and GetMinEpoch is %zu",
           cur, pub.list.size(), pub.list.empty() ? 0 : pub.list.back(), pub.min);
  }
}

// ---- sequential histories (C20) --------------------------------------------------------------------
enum Cmd : int { cNone = 0, cCreate, cDestroy, cExit, cForward };
struct SeqW {
  int slot;
  size_t probe_hash;
};
void seq_worker_fn(void *p)
{
  auto *w = static_cast<SeqW *>(p);
  set_probe_hash(w->probe_hash);
  std::optional<EpochGuard> g;
  for (;;) {
    dsim::wait_signal();
    const int cmd = S->slot_cmd[w->slot];
    if (cmd == cCreate) {
      dsim::set_alloc_tag(kTagGuard);
      dsim::op_begin("CreateEpochGuard", 0);
      g.emplace(S->mgr->CreateEpochGuard());
      dsim::op_end();
      dsim::set_alloc_tag(0);
      S->slot_epoch[w->slot] = g->GetProtectedEpoch();
    } else if (cmd == cDestroy) {
      dsim::op_begin("destroy guard", 0);
      g.reset();
      dsim::op_end();
    } else if (cmd == cForward) {
      // this thread is the one that drives the epochs for a while - possibly while it holds a guard of its own
      dsim::Observer ob(1ull << 40);
      dsim::set_alloc_tag(kTagForward);
      S->mgr->ForwardGlobalEpoch();
      dsim::set_alloc_tag(0);
    } else if (cmd == cExit) {
      dsim::signal(0);
      dsim::op_begin("thread-exit cleanup", 0);
      return;
    }
    dsim::signal(0);
  }
}

void seq_command(int slot, int cmd)
{
  S->slot_cmd[slot] = cmd;
  dsim::signal(S->slot_vt[slot]);
  dsim::wait_signal();
}

void seq_check_after_forward(size_t new_epoch)
{
  std::vector<size_t> want = {new_epoch, new_epoch - 1};
  for (int s = 0; s < 8; ++s)
    if (S->slot_has_guard[s]) want.push_back(S->slot_epoch[s]);
  std::sort(want.begin(), want.end(), std::greater<size_t>{});
  want.erase(std::unique(want.begin(), want.end()), want.end());
  const Published pub = read_published();
  if (pub.list != want) {
    std::string a, b;
    for (auto v : pub.list) a += std::to_string(v) + " ";
    for (auto v : want) b += std::to_string(v) + " ";
    ORACLE("[C20]", "published-list-differs-from-model", " :: after the forward to %zu the list is {%s} but the reference model says {%s}", new_epoch,
           a.substr(0, 300).c_str(), b.substr(0, 300).c_str());
  }
  if (pub.min != want.back()) {
    ORACLE("[C20]", "min-epoch-differs-from-model", " :: after the forward to %zu GetMinEpoch is %zu, the reference model says %zu", new_epoch, pub.min,
           want.back());
  }
  std::vector<size_t> ranges;
  for (auto v : want) ranges.push_back(v / 256);
  ranges.erase(std::unique(ranges.begin(), ranges.end()), ranges.end());
  const size_t nodes = live_nodes();
  if (nodes > S->nodes_seen_max) S->nodes_seen_max = nodes;
  if (nodes > ranges.size() + 4) {  // "plus a constant": today's code keeps the head and the never-retired first node; leave room for a spare
    ORACLE("[C20]", "list-memory-not-bounded", " :: %zu list nodes are alive at epoch %zu although only %zu distinct 256-epoch ranges hold a pinned or current epoch",
           nodes, new_epoch, ranges.size());
  }
}

void run_sequential(const Program &p)
{
  const int W = static_cast<int>(p.params.size() > 1 ? p.params[1] : 1);
  std::vector<SeqW> args(8);
  for (int s = 1; s <= W; ++s) {
    args[static_cast<size_t>(s)] = SeqW{s, static_cast<size_t>(p.params.size() > 2 ? p.params[2] : 0) + static_cast<size_t>(s)};
    S->slot_vt[s] = dsim::spawn(seq_worker_fn, &args[static_cast<size_t>(s)], "worker");
  }
  size_t epoch = kInitial;
  {
    bool any_pin = false, any_fwd = false;
    for (const Op &op : p.threads[0]) {
      if (op.kind == kSeqCreate) any_pin = true;
      if (op.kind == kSeqForward && any_pin) any_fwd = true;
    }
    if (any_pin && any_fwd) dsim::note_nontrivial();
  }
  for (const Op &op : p.threads[0]) {
    switch (op.kind) {
      case kSeqForward: {
        const size_t nodes0 = live_nodes();
        for (int64_t i = 0; i < op.a; ++i) {
          if (op.obj >= 1 && op.obj <= W) {
            // forwards of this operation are called by a worker thread (never two threads at a time: still one coordinator)
            if (S->slot_has_guard[op.obj]) dsim::probe(pForwardByGuardHolder);
            seq_command(op.obj, cForward);
          } else {
            dsim::Observer ob(1ull << 40);  // nothing runs concurrently with ForwardGlobalEpoch in these histories
            dsim::set_alloc_tag(kTagForward);
            S->mgr->ForwardGlobalEpoch();
            dsim::set_alloc_tag(0);
          }
          epoch++;
          S->forwards_done++;
          // check after every forward near interesting points, and at least every 64 forwards
          if (i + 3 >= op.a || (epoch & 255) <= 2 || (epoch & 255) >= 254 || (i & 63) == 0) seq_check_after_forward(epoch);
        }
        const size_t nodes1 = live_nodes();
        if (nodes1 > nodes0) dsim::probe(pNodeCreated);
        if (op.a >= 256 && nodes1 <= nodes0) dsim::probe(pNodeRetired);
        size_t cur;
        {
          dsim::Observer ob;
          cur = S->mgr->GetCurrentEpoch();
        }
        if (cur != epoch) {
          ORACLE("[C20][C16]", "epoch-count-differs-from-model", " :: GetCurrentEpoch is %zu after %lu forwards, expected %zu", cur,
                 static_cast<unsigned long>(S->forwards_done), epoch);
        }
        break;
      }
      case kSeqCreate:
        if (op.obj >= 1 && op.obj <= W && !S->slot_has_guard[op.obj]) {
          seq_command(op.obj, cCreate);
          S->slot_has_guard[op.obj] = true;
          if (S->slot_epoch[op.obj] != epoch) {
            ORACLE("[C20][C04]", "guard-epoch-differs-from-model", " :: a guard created at epoch %zu reports %zu", epoch, S->slot_epoch[op.obj]);
          }
        }
        break;
      case kSeqDestroy:
        if (op.obj >= 1 && op.obj <= W && S->slot_has_guard[op.obj]) {
          if (S->slot_epoch[op.obj] / 256 != epoch / 256) dsim::probe(pPinnedAcrossBoundary);
          if (epoch >= S->slot_epoch[op.obj] + 2) dsim::probe(pWorkerAcrossForwards);
          seq_command(op.obj, cDestroy);
          S->slot_has_guard[op.obj] = false;
        }
        break;
      case kSeqRecreate: {
        for (int s = 1; s <= W; ++s) {
          if (S->slot_has_guard[s]) {
            seq_command(s, cDestroy);
            S->slot_has_guard[s] = false;
          }
        }
        {
          dsim::Observer ob(1ull << 40);
          dsim::set_alloc_tag(kTagCtor);
          EpochManager *m = S->mgr;
          m->~EpochManager();
          const size_t left = dsim::heap_live(kTagCtor) + dsim::heap_live(kTagForward);
          if (left != 1) {  // the block of the manager object itself
            ORACLE("[C20]", "list-memory-not-freed", " :: %zu block(s) allocated by EpochManager for its lists are still alive after the manager was destroyed (history continues with a new manager)",
                   left - (left > 0 ? 1 : 0));
          }
          new (m) EpochManager{};
          dsim::set_alloc_tag(0);
        }
        epoch = kInitial;
        dsim::probe(pManagerRecreated);
        size_t cur;
        {
          dsim::Observer ob;
          cur = S->mgr->GetCurrentEpoch();
        }
        if (cur != kInitial) ORACLE("[C16][C20]", "initial-epoch", " :: a new EpochManager reports epoch %zu, documented initial epoch is %zu", cur, kInitial);
        break;
      }
      case kSeqRestart:
        if (op.obj >= 1 && op.obj <= W) {
          if (S->slot_has_guard[op.obj]) {
            seq_command(op.obj, cDestroy);
            S->slot_has_guard[op.obj] = false;
          }
          const int old = S->slot_vt[op.obj];
          seq_command(op.obj, cExit);
          dsim::join(old);
          dsim::count_fault(dsim::kFThreadExit);
          dsim::count_fault(dsim::kFThreadRestart);
          dsim::probe(pRestart);
          dsim::probe(pIdReuse);
          args[static_cast<size_t>(op.obj)].probe_hash += static_cast<size_t>(op.a);
          S->slot_vt[op.obj] = dsim::spawn(seq_worker_fn, &args[static_cast<size_t>(op.obj)], "worker'");
        }
        break;
      default: break;
    }
  }
  for (int s = 1; s <= W; ++s) {
    if (S->slot_has_guard[s]) {
      seq_command(s, cDestroy);
      S->slot_has_guard[s] = false;
    }
    const int v = S->slot_vt[s];
    seq_command(s, cExit);
    dsim::join(v);
  }
  // one more forward with nothing pinned
  {
    dsim::Observer ob(1ull << 40);
    dsim::set_alloc_tag(kTagForward);
    S->mgr->ForwardGlobalEpoch();
    dsim::set_alloc_tag(0);
  }
  epoch++;
  seq_check_after_forward(epoch);
}

// ---- entry -----------------------------------------------------------------------------------------
void entry(void *)
{
  const Program &p = current_program();
  S = new State{};
  S->prog = &p;
  dsim::set_uaf_policy(kTagGuard, dsim::kUafNote);  // shared_ptr control blocks of heartbeats: not list memory, not a listed property
  set_probe_hash(static_cast<size_t>(p.params.size() > 2 ? p.params[2] : 0));
  dsim::set_alloc_tag(kTagCtor);
  S->mgr = new EpochManager{};
  dsim::set_alloc_tag(0);
  {
    size_t c0;
    {
      dsim::Observer ob;
      c0 = S->mgr->GetCurrentEpoch();
    }
    if (c0 != kInitial) ORACLE("[C16]", "initial-epoch", " :: a new EpochManager reports epoch %zu, documented initial epoch is %zu", c0, kInitial);
  }
  // the coordinator takes its thread ID and slot before anything else runs
  {
    dsim::set_alloc_tag(kTagGuard);
    EpochGuard warm = S->mgr->CreateEpochGuard();
    dsim::set_alloc_tag(0);
  }
  bool need2 = false;
  for (auto &t : p.threads)
    for (auto &o : t)
      if (o.kind == kGuardReassign) need2 = true;
  if (need2) {
    dsim::set_alloc_tag(kTagGuard);  // not list memory of the manager under test
    S->mgr2 = new EpochManager{};
    dsim::set_alloc_tag(0);
  }
  if (p.profile == kSequential) {
    run_sequential(p);
  } else {
    prologue(p.params.empty() ? 0 : p.params[0]);
    S->last_cur[0] = kInitial + static_cast<size_t>(p.params.empty() ? 0 : p.params[0]);
    const int W = static_cast<int>(p.threads.size()) - 1;
    std::vector<WArg *> args;
    std::vector<int> first_vt(8, -1);
    for (int s = 1; s <= W; ++s) {
      auto *w = new WArg{s, 0, static_cast<size_t>(p.params.size() > 2 ? p.params[2] : 0) + static_cast<size_t>(s) * static_cast<size_t>(p.params.size() > 3 ? p.params[3] : 1)};
      args.push_back(w);
      S->slot_vt[s] = dsim::next_vt_id();  // the worker may run (and register a successor) before spawn returns
      first_vt[static_cast<size_t>(s)] = S->slot_vt[s];
      dsim::spawn(worker_fn, w, "worker");
    }
    set_phase("concurrent");
    for (const Op &op : p.threads[0]) {
      if (op.kind != kForward) continue;
      if (op.c > 0) {
        dsim::probe(pBurst);
        const size_t nodes0 = live_nodes();
        {
          dsim::Observer ob(1ull << 40);
          dsim::set_alloc_tag(kTagForward);
          for (int64_t i = 0; i < op.c; ++i) S->mgr->ForwardGlobalEpoch();
          dsim::set_alloc_tag(0);
        }
        S->forwards_started += static_cast<uint64_t>(op.c);
        S->forwards_done += static_cast<uint64_t>(op.c);
        S->guard_activity++;  // a burst never counts as a quiescent forward
        if (live_nodes() != nodes0 || op.c >= 256) dsim::probe(pNodeCreated);
        dsim::yield();
      }
      for (int64_t i = 0; i < op.a; ++i) {
        const bool observe = !(op.obj == 1 && i + 1 < op.a);  // obj = 1: the forwards of this operation follow each other directly
        forward_once(true, observe);
        if (!observe) continue;
        reading_current("coordinator");
        for (int64_t y = 0; y < op.b; ++y) dsim::yield();
      }
    }
    // wait for every worker chain to end (a worker registers its successor before it exits)
    for (int s = 1; s <= W; ++s) {
      for (int v = first_vt[static_cast<size_t>(s)];;) {
        dsim::join(v);
        int next = -1;
        for (auto &pr : S->succ)
          if (pr.first == v) next = pr.second;
        if (next < 0) break;
        v = next;
        dsim::probe(pIdReuse);
      }
    }
    final_quiescent_check();
  }
  // C20: destroying the manager frees all list memory
  set_phase("teardown");
  const size_t nodes_before_delete = live_nodes();
  (void)nodes_before_delete;
  delete S->mgr;
  S->mgr = nullptr;
  delete S->mgr2;
  S->mgr2 = nullptr;
  const size_t left = dsim::heap_live(kTagCtor) + dsim::heap_live(kTagForward);
  if (left != 0) {
    ORACLE("[C20]", "list-memory-not-freed", " :: %zu block(s) allocated by EpochManager for its lists are still alive after the manager was destroyed", left);
  }
  delete S;
  S = nullptr;
}

// ---- generator -------------------------------------------------------------------------------------
void generate(Program &prog, dsim::Config &cfg, dsim::Rng &pr, dsim::Rng &cr, int, int profile)
{
  const int n = static_cast<int>(kN);
  int W = n - 1;
  if (W > 3) W = 1 + static_cast<int>(pr.below(3));
  if (W < 0) W = 0;
  prog.threads.clear();
  if (profile == kSequential) {
    // params: [0, W, probe hash base]
    prog.params = {0, W, static_cast<int64_t>(pr.below(1000))};
    std::vector<Op> h;
    const int len = 6 + static_cast<int>(pr.below(30));
    for (int i = 0; i < len; ++i) {
      Op o;
      const uint64_t x = pr.below(100);
      if (x < 35 || W == 0) {
        o.kind = kSeqForward;
        switch (pr.below(6)) {
          case 0: o.a = 1; break;
          case 1: o.a = 1 + static_cast<int64_t>(pr.below(4)); break;
          case 2: o.a = 250 + static_cast<int64_t>(pr.below(12)); break;
          case 3: o.a = 1 + static_cast<int64_t>(pr.below(700)); break;
          case 4: o.a = 256 * (1 + static_cast<int64_t>(pr.below(4))) + static_cast<int64_t>(pr.below(3)) - 1; break;
          default: o.a = 1 + static_cast<int64_t>(pr.below(60)); break;
        }
        if (W >= 1 && o.a <= 300 && pr.chance(1, 3)) o.obj = 1 + static_cast<int>(pr.below(static_cast<uint64_t>(W)));
      } else if (x < 65) {
        o.kind = kSeqCreate;
        o.obj = 1 + static_cast<int>(pr.below(static_cast<uint64_t>(W)));
      } else if (x < 86) {
        o.kind = kSeqDestroy;
        o.obj = 1 + static_cast<int>(pr.below(static_cast<uint64_t>(W)));
      } else if (x < 90) {
        o.kind = kSeqRecreate;
      } else {
        o.kind = kSeqRestart;
        o.obj = 1 + static_cast<int>(pr.below(static_cast<uint64_t>(W)));
        o.a = static_cast<int64_t>(pr.below(5));
      }
      h.push_back(o);
    }
    prog.threads.push_back(h);
    cfg.strategy = dsim::kSequential;
    cfg.spin_bound = 3 * n + 12;
    cfg.max_steps = 2000000;
    return;
  }
  if ((profile == kStaleNode && W >= 2) || (profile == kPlainSteps && W >= 1)) {
    // directed family: one guard pins a middle list node for a long time while another worker is delayed inside guard creation
    // across hundreds of epochs (several node creations and retirements)
    W = (profile == kPlainSteps && (W < 2 || pr.chance(1, 2))) ? 1 : 2;
    prog.params = {300 + static_cast<int64_t>(pr.below(200)), W, static_cast<int64_t>(pr.below(1000)), 1};
    std::vector<Op> coord;
    const int bursts = 2 + static_cast<int>(pr.below(2));
    for (int b = 0; b < bursts; ++b) {
      Op o;
      o.kind = kForward;
      o.c = 120 + static_cast<int64_t>(pr.below(400));
      o.a = static_cast<int64_t>(pr.below(3));
      o.b = static_cast<int64_t>(pr.below(3));
      coord.push_back(o);
    }
    prog.threads.push_back(coord);
    for (int s = 1; s <= W; ++s) {
      std::vector<Op> ops;
      const int nops = 1 + static_cast<int>(pr.below(2));
      for (int i = 0; i < nops; ++i) {
        Op o;
        o.kind = kGuard;
        o.a = 1 + static_cast<int64_t>(pr.below(3));
        o.b = 1;
        o.c = 1 + static_cast<int64_t>(pr.below(3));
        ops.push_back(o);
      }
      prog.threads.push_back(ops);
    }
    const uint64_t st = cr.below(100);
    cfg.strategy = st < 30 ? dsim::kRandom : (st < 55 ? dsim::kSticky : (st < 85 ? dsim::kPCT : dsim::kStall));
    cfg.pct_depth = 1 + static_cast<int>(cr.below(3));
    cfg.pct_len = 120;
    cfg.sticky_percent = 40 + static_cast<int>(cr.below(55));
    if (cfg.strategy == dsim::kStall) {
      cfg.stall_permille = 30 + static_cast<int>(cr.below(80));
      cfg.stall_max = 100 + static_cast<int>(cr.below(600));
    }
    cfg.spin_bound = 3 * n + 12;
    cfg.max_steps = 200000;
    if (profile == kPlainSteps) {
      // finer than the atomic-step granularity of the listed properties: inside API calls every plain access to shared memory is a
      // scheduling point too (exploration of the unsynchronised list walk and slot fields; findings are recorded, see DESIGN 11.5)
      cfg.plain_sched = true;
      cfg.pct_len = 600;
      cfg.max_steps = 600000;
    }
    return;
  }
  // concurrent profiles.  params: [prologue forwards, W, probe hash base, probe hash stride]
  int64_t prologue = 0;
  switch (pr.below(profile == kLists ? 4 : 6)) {
    case 0: prologue = 511 - static_cast<int64_t>(pr.below(4)); break;           // epoch just below 768: next node boundary with 3 nodes alive
    case 1: prologue = 255 - static_cast<int64_t>(pr.below(4)); break;           // just below 512
    case 2: prologue = 767 - static_cast<int64_t>(pr.below(3)); break;           // just below 1024
    case 3: prologue = pr.chance(1, 2) ? 509 + static_cast<int64_t>(pr.below(6)) : 300 + static_cast<int64_t>(pr.below(120)); break;
    case 4: prologue = 0; break;
    default: prologue = static_cast<int64_t>(pr.below(40)); break;
  }
  prog.params = {prologue, W, static_cast<int64_t>(pr.below(1000)), static_cast<int64_t>(pr.below(3))};
  std::vector<Op> coord;
  const int bursts = 1 + static_cast<int>(pr.below(3)) + (scale() >= 2 ? 3 : (scale() >= 1 && pr.chance(1, 3) ? 2 : 0));
  for (int b = 0; b < bursts; ++b) {
    Op o;
    o.kind = kForward;
    o.a = 1 + static_cast<int64_t>(pr.below(profile == kLists ? 5 : 4));
    o.b = static_cast<int64_t>(pr.below(4));
    if (pr.chance(profile == kLists ? 2 : 1, 5)) o.c = 100 + static_cast<int64_t>(pr.below(500));
    if (pr.chance(1, 4)) {
      o.obj = 1;
      if (o.a < 2) o.a = 2;
    }
    coord.push_back(o);
  }
  prog.threads.push_back(coord);
  for (int s = 1; s <= W; ++s) {
    std::vector<Op> ops;
    const int nops = 1 + static_cast<int>(pr.below(scale() >= 2 ? 8 : (scale() >= 1 ? 6 : 4)));
    for (int i = 0; i < nops; ++i) {
      Op o;
      const uint64_t x = pr.below(100);
      if (x < (profile == kAdvance ? 35u : 60u)) {
        o.kind = kGuard;
        o.a = static_cast<int64_t>(pr.below(4));
        o.b = profile == kLists ? 1 : static_cast<int64_t>(pr.below(2));
        o.c = static_cast<int64_t>(pr.below(3));
      } else if (x < (profile == kAdvance ? 70u : 72u)) {
        o.kind = kReadings;
        o.a = static_cast<int64_t>(pr.below(3));
      } else if (x < 85) {
        o.kind = pr.chance(1, 2) ? kGuardMove : kGuardReassign;
        o.a = static_cast<int64_t>(pr.below(3));
        if (o.kind == kGuardMove) o.b = static_cast<int64_t>(pr.below(3));  // 0: destroyed while engaged; 1, 2: released by `g = EpochGuard{}`
      } else {
        o.kind = kRestart;
        o.a = static_cast<int64_t>(pr.below(3));
      }
      ops.push_back(o);
    }
    prog.threads.push_back(ops);
  }
  const uint64_t s = cr.below(100);
  if (s < 25) cfg.strategy = dsim::kRandom;
  else if (s < 50) cfg.strategy = dsim::kSticky;
  else if (s < 75) cfg.strategy = dsim::kPCT;
  else cfg.strategy = dsim::kStall;
  cfg.pct_depth = 1 + static_cast<int>(cr.below(3));
  cfg.pct_len = 60 + static_cast<int>(prog.total_ops()) * 20;
  cfg.sticky_percent = 40 + static_cast<int>(cr.below(55));
  if (cfg.strategy == dsim::kStall) {
    cfg.stall_permille = 15 + static_cast<int>(cr.below(60));
    cfg.stall_max = 30 + static_cast<int>(cr.below(1500));
  }
  cfg.spin_bound = 3 * n + 12;
  cfg.max_steps = 200000;
  cfg.tso = cr.chance(1, 3);  // a third of the runs: x86-TSO store buffers (DESIGN 11.8)
  if (profile == kPlainPin) {  // the general family (restarts, ID reuse, guard moves) at plain-step granularity
    cfg.plain_sched = true;
    cfg.tso = false;
    cfg.pct_len = 800;
    cfg.max_steps = 600000;
  }
  static const int kDrain[] = {1, 5, 25};
  cfg.tso_drain_percent = kDrain[cr.below(3)];
  cfg.weak_stores = cr.chance(1, 2);  // half of the buffered runs: only release-class operations drain the buffer
}

std::string render(const Program &p)
{
  std::string s = "EpochManager capacity " + std::to_string(kN) + ", profile " + std::to_string(p.profile);
  if (p.profile == kSequential) {
    s += ", sequential history with " + std::to_string(p.params.size() > 1 ? p.params[1] : 0) + " workers:\n  ";
    for (auto &o : p.threads[0]) {
      switch (o.kind) {
        case kSeqForward: s += "forward x" + std::to_string(o.a) + (o.obj ? " by W" + std::to_string(o.obj) : "") + "; "; break;
        case kSeqRecreate: s += "destroy manager, new manager at the same address; "; break;
        case kSeqCreate: s += "W" + std::to_string(o.obj) + ".create; "; break;
        case kSeqDestroy: s += "W" + std::to_string(o.obj) + ".destroy; "; break;
        case kSeqRestart: s += "W" + std::to_string(o.obj) + ".exit+restart; "; break;
        default: break;
      }
    }
    return s + "\n";
  }
  s += ", prologue " + std::to_string(p.params.empty() ? 0 : p.params[0]) + " forwards (epoch " +
       std::to_string(kInitial + static_cast<size_t>(p.params.empty() ? 0 : p.params[0])) + ")\n  coordinator:";
  for (auto &o : p.threads[0])
    s += (o.c ? " burst x" + std::to_string(o.c) + ";" : std::string()) + " forward x" + std::to_string(o.a) +
         (o.obj == 1 ? " back-to-back" : "") + " (yields " + std::to_string(o.b) + ");";
  s += "\n";
  for (size_t t = 1; t < p.threads.size(); ++t) {
    s += "  W" + std::to_string(t) + ":";
    for (auto &o : p.threads[t]) {
      switch (o.kind) {
        case kGuard: s += std::string(o.b ? " GetProtectedEpochs" : " CreateEpochGuard") + "(hold " + std::to_string(o.a) + ", rereads " + std::to_string(o.c) + ");"; break;
        case kReadings: s += " readings x" + std::to_string(o.a + 1) + ";"; break;
        case kRestart: s += " exit+restart;"; break;
        case kGuardMove: s += " guard+moves(hold " + std::to_string(o.a) + (o.b ? ", released by g = EpochGuard{}" : "") + ");"; break;
        case kGuardReassign: s += " guard; guard = otherManager.CreateEpochGuard()(hold " + std::to_string(o.a) + ");"; break;
        default: break;
      }
    }
    s += "\n";
  }
  return s;
}

std::string tags_for_runtime_class(const Program &p, const char *cls)
{
  const std::string c = cls;
  if (c.rfind("heap/", 0) == 0) {
    if (c.find("tag2") != std::string::npos || c.find("tag3") != std::string::npos) return p.profile == kSequential ? "[C20][C17]" : "[C17]";
    return "[harness]";
  }
  if (c.rfind("crash/", 0) == 0) return p.profile == kSequential ? "[C20]" : "[C17][C04]";
  if (c.rfind("deadlock", 0) == 0) return "[C04][C16][C17][C20] no-progress";
  if (c.rfind("observer/", 0) == 0) return "[C04][C16][C20] no-progress";
  return "[inconclusive]";
}

void process_init()
{
  const char *e = getenv("VERIF_PROP");
  g_prop = e ? std::string("[") + e + "]" : "";
}
}  // namespace

const Scenario kEpochScenario = {"epoch", generate, entry, render, tags_for_runtime_class, kProbeNames, process_init};

}  // namespace sim
