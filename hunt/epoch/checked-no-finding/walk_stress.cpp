#include <atomic>
#include <cstdio>
#include <thread>
#include <vector>
#include "dbgroup/thread/epoch_manager.hpp"
int main() {
  dbgroup::thread::EpochManager mgr{};
  std::atomic_bool running{true};
  std::atomic<size_t> bad{0};
  std::vector<std::thread> ws;
  for (int i = 0; i < 4; ++i) ws.emplace_back([&] {
    while (running.load(std::memory_order_relaxed)) {
      const auto &[g, l] = mgr.GetProtectedEpochs();
      if (l.empty() || l.front() != g.GetProtectedEpoch()) ++bad;
      for (size_t k = 0; k + 1 < l.size(); ++k) if (l[k] <= l[k + 1]) ++bad;
    }
  });
  for (int i = 0; i < 20000; ++i) mgr.ForwardGlobalEpoch();
  running = false;
  for (auto &t : ws) t.join();
  std::printf("bad=%zu\n", bad.load());
  return bad.load() != 0;
}
