// Deterministic interleaving explorer for MCSLock, built on the TSan ABI seam:
// the UNMODIFIED src/lock/mcs_lock.cpp is compiled with -fsanitize=thread and
// linked against the __tsan_* functions below instead of libtsan.  Every
// atomic operation of the library becomes a scheduling point of a cooperative
// (ucontext) scheduler.  The hooks perform exactly the requested atomic
// operation and change no library state.
//
// compile harness with -fno-access-control (to see tls_node_ / lock_)
#include <ucontext.h>

#include <algorithm>
#include <cstdarg>
#include <cstdint>
#include <cstdio>
#include <cstdlib>
#include <cstring>
#include <map>
#include <random>
#include <set>
#include <string>
#include <vector>

#include "dbgroup/lock/mcs_lock.hpp"

using dbgroup::lock::MCSLock;

/* ------------------------------------------------------------------ config */
static bool g_verbose = false;
static bool g_reuse_addr = false;  // allocator reuses freed node addresses (LIFO)
static int g_nlocks = 1;

static int g_in_harness = 0;  // >0 while harness code allocates
/* ------------------------------------------------------------------ tracing */
static std::vector<std::string> g_trace;
static void
tr(const char *fmt, ...)
{
  char buf[512];
  va_list ap;
  va_start(ap, fmt);
  vsnprintf(buf, sizeof buf, fmt, ap);
  va_end(ap);
  ++g_in_harness;
  g_trace.emplace_back(buf);
  --g_in_harness;
  if (g_verbose) puts(buf);
}

struct Violation {
  std::string what;
};
static bool g_failed = false;
static std::string g_fail_msg;

static void
fail(const char *fmt, ...)
{
  char buf[512];
  va_list ap;
  va_start(ap, fmt);
  vsnprintf(buf, sizeof buf, fmt, ap);
  va_end(ap);
  if (!g_failed) {
    g_failed = true;
    ++g_in_harness;
    g_fail_msg = buf;
    --g_in_harness;
    tr("!!! VIOLATION: %s", buf);
  }
}

/* ------------------------------------------------------------------ nodes */
enum NodeState { LIVE, FREED };
static std::map<uintptr_t, NodeState> g_nodes;  // heap nodes allocated by library
static std::vector<void *> g_freelist;
static bool g_in_lib = false;
static size_t g_live_nodes = 0, g_max_live = 0;

static void *
node_alloc(size_t n)
{
  void *p;
  if (g_reuse_addr && !g_freelist.empty()) {
    p = g_freelist.back();
    g_freelist.pop_back();
  } else {
    p = malloc(64);
  }
  (void)n;
  g_nodes[(uintptr_t)p] = LIVE;
  ++g_live_nodes;
  g_max_live = std::max(g_max_live, g_live_nodes);
  return p;
}
static void
node_free(void *p)
{
  auto it = g_nodes.find((uintptr_t)p);
  if (it == g_nodes.end()) {
    free(p);
    return;
  }
  if (it->second == FREED) {
    fail("double free of node %p", p);
    return;
  }
  it->second = FREED;
  --g_live_nodes;
  memset(p, 0xDD, 8);  // poison
  if (g_reuse_addr) g_freelist.push_back(p);
}

void *
operator new(size_t n)
{
  if (g_in_lib && !g_in_harness && n == sizeof(MCSLock)) return node_alloc(n);
  void *p = malloc(n);
  if (!p) abort();
  return p;
}
void
operator delete(void *p) noexcept
{
  if (!p) return;
  if (g_nodes.count((uintptr_t)p)) {
    node_free(p);
    return;
  }
  free(p);
}
void
operator delete(void *p, size_t) noexcept
{
  operator delete(p);
}

/* ------------------------------------------------------------------ vthreads */
enum Mode { M_S = 0, M_SIX = 1, M_X = 2 };
static const char *kModeName[] = {"S", "SIX", "X"};
static bool
conflict(int a, int b)
{
  if (a == M_S && b == M_S) return false;
  if ((a == M_S && b == M_SIX) || (a == M_SIX && b == M_S)) return false;
  return true;
}

enum OpKind { OP_S, OP_SIX, OP_X, OP_SIX_UP, OP_X_DOWN, OP_X_DOWN_UP, OP_SIX_UP_DOWN, OP_KINDS };
static const char *kOpName[] = {"S", "SIX", "X", "SIX>X", "X>SIX", "X>SIX>X", "SIX>X>SIX"};

struct OpSpec {
  int kind;
  int lock;
};

struct VT {
  ucontext_t ctx;
  char *stack = nullptr;
  MCSLock *tls = nullptr;  // saved content of MCSLock::tls_node_ while switched out
  bool done = false;
  bool exited = false;
  uint64_t blocked_epoch = ~0ULL;
  const void *last_load_addr = nullptr;
  uint64_t last_load_epoch = 0;
  std::vector<OpSpec> script;
  int id = 0;
  // acquisition tracking
  std::vector<std::pair<volatile unsigned long long *, unsigned long long>> sbuf;  // delayed relaxed stores
  int acquiring_lock = -1;  // lock index while inside Lock*()
  int acquiring_req = -1;
};

static ucontext_t g_main;
static std::vector<VT *> g_vts;
static VT *g_cur = nullptr;
static uint64_t g_wepoch = 1;
static uint64_t g_steps = 0;

struct Req {
  int thread;
  int lock;
  int mode;
  long arrival = -1;  // -1: not yet announced
  bool granted = false;
  bool released = false;
};
static std::vector<Req> g_reqs;
static std::vector<long> g_arrival_ctr;
static MCSLock *g_locks = nullptr;

static void
yield_to_main()
{
  VT *me = g_cur;
  bool in_lib = g_in_lib;
  swapcontext(&me->ctx, &g_main);
  g_in_lib = in_lib;
}

/* ------------------------------------------------------------------ hooks */
static const char *
addr_name(const volatile void *a, char *buf)
{
  for (int i = 0; i < g_nlocks; ++i)
    if ((const volatile void *)&g_locks[i].lock_ == a) {
      sprintf(buf, "L%d", i);
      return buf;
    }
  sprintf(buf, "n%04lx", (unsigned long)((uintptr_t)a & 0xffff));
  return buf;
}
static std::string
val_str(uint64_t v)
{
  char b[96];
  uint64_t ptr = v & ((1ULL << 47) - 1);
  sprintf(b, "[%s%sS=%lu p=%04lx]", (v >> 63) ? "X " : "", ((v >> 62) & 1) ? "SIX " : "",
          (unsigned long)((v >> 47) & 0x7fff), (unsigned long)(ptr & 0xffff));
  return b;
}

static void
check_addr(const volatile void *a, const char *what)
{
  if (!g_cur) return;
  auto it = g_nodes.find((uintptr_t)a);
  if (it != g_nodes.end() && it->second == FREED) {
    fail("T%d %s on FREED node %p", g_cur->id, what, a);
    return;
  }
  if (it == g_nodes.end()) return;
  // recycled == sitting in some thread's tls_node_
  if ((void *)MCSLock::tls_node_.get() == (void *)a) {
    fail("T%d %s on node %p that is parked in its own tls_node_", g_cur->id, what, a);
    return;
  }
  for (auto *t : g_vts) {
    if (t != g_cur && (void *)t->tls == (void *)a) {
      fail("T%d %s on node %p that is parked in tls_node_ of T%d", g_cur->id, what, a, t->id);
      return;
    }
  }
}

static void
pre(const volatile void *a, const char *what)
{
  if (!g_cur) return;
  yield_to_main();
  check_addr(a, what);
  ++g_steps;
}

static void
note_write(const volatile void *a)
{
  ++g_wepoch;
  if (g_cur) {
    g_cur->last_load_addr = nullptr;
    if (g_cur->acquiring_lock >= 0 && (const volatile void *)&g_locks[g_cur->acquiring_lock].lock_ == a) {
      Req &r = g_reqs[g_cur->acquiring_req];
      if (r.arrival < 0) {
        r.arrival = ++g_arrival_ctr[r.lock];
        tr("    T%d request #%d (%s on L%d) ARRIVES as %ld", g_cur->id, g_cur->acquiring_req, kModeName[r.mode],
           r.lock, r.arrival);
      }
    }
  }
}

static bool g_pso = false;
static void
flush_one(VT *t, size_t i)
{
  auto e = t->sbuf[i];
  t->sbuf.erase(t->sbuf.begin() + i);
  *e.first = e.second;
  char b[32];
  tr("  T%d   (delayed relaxed store to %s becomes visible: %s)", t->id, addr_name(e.first, b), val_str(e.second).c_str());
  ++g_wepoch;
}
static void
flush_addr(VT *t, const volatile void *a)
{
  for (size_t i = 0; i < t->sbuf.size();) {
    if ((const volatile void *)t->sbuf[i].first == a)
      flush_one(t, i);
    else
      ++i;
  }
}
static void
flush_all(VT *t)
{
  while (!t->sbuf.empty()) flush_one(t, 0);
}
static void
order_point(const volatile void *a, int mo)
{
  if (!g_cur) return;
  if (mo >= 3) flush_all(g_cur);  // release, acq_rel, seq_cst: earlier stores become visible first
  flush_addr(g_cur, a);           // coherence: same-location accesses stay in order
}

extern "C" {
using a64 = unsigned long long;
void
__tsan_init()
{
}
void
__tsan_func_entry(void *)
{
}
void
__tsan_func_exit()
{
}
void
__tsan_read1(void *)
{
}
void
__tsan_read8(void *)
{
}
void
__tsan_write1(void *)
{
}
void
__tsan_write8(void *)
{
}

a64
__tsan_atomic64_load(const volatile a64 *a, int)
{
  pre(a, "load");
  a64 v = *a;
  if (g_cur)
    for (auto &e : g_cur->sbuf)
      if (e.first == a) v = e.second;  // store forwarding
  if (g_cur) {
    char b[32];
    tr("  T%d load  %s -> %s", g_cur->id, addr_name(a, b), val_str(v).c_str());
    if (g_cur->last_load_addr == (const void *)a && g_cur->last_load_epoch == g_wepoch) {
      g_cur->blocked_epoch = g_wepoch;  // spinning: nothing changed since the previous load
    }
    g_cur->last_load_addr = (const void *)a;
    g_cur->last_load_epoch = g_wepoch;
  }
  return v;
}
void
__tsan_atomic64_store(volatile a64 *a, a64 v, int mo)
{
  pre(a, "store");
  if (g_pso && g_cur && mo == 0) {
    char b[32];
    tr("  T%d store %s <- %s (relaxed: buffered)", g_cur->id, addr_name(a, b), val_str(v).c_str());
    g_cur->sbuf.emplace_back(a, v);
    g_cur->last_load_addr = nullptr;
    return;
  }
  order_point(a, mo);
  *a = v;
  char b[32];
  if (g_cur) tr("  T%d store %s <- %s", g_cur->id, addr_name(a, b), val_str(v).c_str());
  note_write(a);
}
a64
__tsan_atomic64_exchange(volatile a64 *a, a64 v, int mo)
{
  pre(a, "xchg");
  order_point(a, mo);
  a64 o = *a;
  *a = v;
  char b[32];
  if (g_cur) tr("  T%d xchg  %s %s <- %s", g_cur->id, addr_name(a, b), val_str(o).c_str(), val_str(v).c_str());
  note_write(a);
  return o;
}
a64
__tsan_atomic64_fetch_add(volatile a64 *a, a64 v, int mo)
{
  pre(a, "fadd");
  order_point(a, mo);
  a64 o = *a;
  *a = o + v;
  char b[32];
  if (g_cur) tr("  T%d fadd  %s %s -> %s", g_cur->id, addr_name(a, b), val_str(o).c_str(), val_str(o + v).c_str());
  note_write(a);
  return o;
}
a64
__tsan_atomic64_fetch_sub(volatile a64 *a, a64 v, int mo)
{
  pre(a, "fsub");
  order_point(a, mo);
  a64 o = *a;
  *a = o - v;
  char b[32];
  if (g_cur) tr("  T%d fsub  %s %s -> %s", g_cur->id, addr_name(a, b), val_str(o).c_str(), val_str(o - v).c_str());
  note_write(a);
  return o;
}
a64
__tsan_atomic64_fetch_xor(volatile a64 *a, a64 v, int mo)
{
  pre(a, "fxor");
  order_point(a, mo);
  a64 o = *a;
  *a = o ^ v;
  char b[32];
  if (g_cur) tr("  T%d fxor  %s %s -> %s", g_cur->id, addr_name(a, b), val_str(o).c_str(), val_str(o ^ v).c_str());
  note_write(a);
  return o;
}
int
__tsan_atomic64_compare_exchange_weak(volatile a64 *a, a64 *c, a64 v, int mo, int)
{
  pre(a, "cas");
  flush_addr(g_cur, a);
  if (*a == *c) order_point(a, mo);
  a64 o = *a;
  char b[32];
  if (o == *c) {
    *a = v;
    if (g_cur) tr("  T%d cas   %s %s -> %s ok", g_cur->id, addr_name(a, b), val_str(o).c_str(), val_str(v).c_str());
    note_write(a);
    return 1;
  }
  if (g_cur)
    tr("  T%d cas   %s FAILED (is %s, expected %s)", g_cur->id, addr_name(a, b), val_str(o).c_str(),
       val_str(*c).c_str());
  *c = o;
  if (g_cur) g_cur->last_load_addr = nullptr;
  return 0;
}
}

/* ------------------------------------------------------------------ client */
static int
new_req(int lock, int mode)
{
  g_reqs.push_back(Req{g_cur->id, lock, mode});
  return (int)g_reqs.size() - 1;
}

static void
on_grant(int rq)
{
  Req &r = g_reqs[rq];
  r.granted = true;
  tr("T%d GRANTED %s on L%d (req #%d, arrival %ld)", r.thread, kModeName[r.mode], r.lock, rq, r.arrival);
  for (size_t i = 0; i < g_reqs.size(); ++i) {
    if ((int)i == rq) continue;
    Req &o = g_reqs[i];
    if (o.lock != r.lock || o.released) continue;
    if (o.granted && conflict(o.mode, r.mode)) {
      fail("C01/C10: T%d holds %s and T%d holds %s on L%d simultaneously", r.thread, kModeName[r.mode], o.thread,
           kModeName[o.mode], r.lock);
    } else if (!o.granted && o.arrival >= 0 && o.arrival < r.arrival && conflict(o.mode, r.mode)) {
      fail("C11: T%d granted %s (arrival %ld) on L%d before earlier conflicting request of T%d (%s, arrival %ld)",
           r.thread, kModeName[r.mode], r.arrival, r.lock, o.thread, kModeName[o.mode], o.arrival);
    }
  }
}
static void
on_convert(int rq, int mode)
{
  Req &r = g_reqs[rq];
  r.mode = mode;
  tr("T%d CONVERTED to %s on L%d (req #%d)", r.thread, kModeName[mode], r.lock, rq);
  for (size_t i = 0; i < g_reqs.size(); ++i) {
    if ((int)i == rq) continue;
    Req &o = g_reqs[i];
    if (o.lock != r.lock || o.released || !o.granted) continue;
    if (conflict(o.mode, r.mode))
      fail("C01/C10: after conversion T%d holds %s while T%d holds %s on L%d", r.thread, kModeName[r.mode],
           o.thread, kModeName[o.mode], r.lock);
  }
}
static void
on_release(int rq)
{
  Req &r = g_reqs[rq];
  r.released = true;
  tr("T%d RELEASING %s on L%d (req #%d)", r.thread, kModeName[r.mode], r.lock, rq);
}

static void
cs()
{
  // a scheduling point inside the critical section
  g_in_lib = false;
  yield_to_main();
}

#define BEGIN_ACQ(lk, md)            \
  int rq = new_req(lk, md);          \
  g_cur->acquiring_lock = lk;        \
  g_cur->acquiring_req = rq;         \
  tr("T%d REQUEST %s on L%d (req #%d)", g_cur->id, kModeName[md], lk, rq); \
  g_in_lib = true;
#define END_ACQ()              \
  g_in_lib = false;            \
  g_cur->acquiring_lock = -1;  \
  on_grant(rq);

static void
run_op(const OpSpec &op)
{
  MCSLock &L = g_locks[op.lock];
  switch (op.kind) {
    case OP_S: {
      BEGIN_ACQ(op.lock, M_S);
      auto g = L.LockS();
      END_ACQ();
      if (!g) fail("C07: LockS guard is false");
      cs();
      on_release(rq);
      g_in_lib = true;
      { auto g2 = std::move(g); }
      g_in_lib = false;
      break;
    }
    case OP_SIX: {
      BEGIN_ACQ(op.lock, M_SIX);
      auto g = L.LockSIX();
      END_ACQ();
      cs();
      on_release(rq);
      g_in_lib = true;
      { auto g2 = std::move(g); }
      g_in_lib = false;
      break;
    }
    case OP_X: {
      BEGIN_ACQ(op.lock, M_X);
      auto g = L.LockX();
      END_ACQ();
      cs();
      on_release(rq);
      g_in_lib = true;
      { auto g2 = std::move(g); }
      g_in_lib = false;
      break;
    }
    case OP_SIX_UP: {
      BEGIN_ACQ(op.lock, M_SIX);
      auto g = L.LockSIX();
      END_ACQ();
      cs();
      g_in_lib = true;
      auto x = g.UpgradeToX();
      g_in_lib = false;
      if (g || !x) fail("C07: upgrade guards wrong");
      on_convert(rq, M_X);
      cs();
      on_release(rq);
      g_in_lib = true;
      { auto g2 = std::move(x); }
      g_in_lib = false;
      break;
    }
    case OP_X_DOWN: {
      BEGIN_ACQ(op.lock, M_X);
      auto g = L.LockX();
      END_ACQ();
      cs();
      g_in_lib = true;
      auto s = g.DowngradeToSIX();
      g_in_lib = false;
      if (g || !s) fail("C07: downgrade guards wrong");
      on_convert(rq, M_SIX);
      cs();
      on_release(rq);
      g_in_lib = true;
      { auto g2 = std::move(s); }
      g_in_lib = false;
      break;
    }
    case OP_X_DOWN_UP: {
      BEGIN_ACQ(op.lock, M_X);
      auto g = L.LockX();
      END_ACQ();
      cs();
      g_in_lib = true;
      auto s = g.DowngradeToSIX();
      g_in_lib = false;
      on_convert(rq, M_SIX);
      cs();
      g_in_lib = true;
      auto x = s.UpgradeToX();
      g_in_lib = false;
      on_convert(rq, M_X);
      cs();
      on_release(rq);
      g_in_lib = true;
      { auto g2 = std::move(x); }
      g_in_lib = false;
      break;
    }
    case OP_SIX_UP_DOWN: {
      BEGIN_ACQ(op.lock, M_SIX);
      auto g = L.LockSIX();
      END_ACQ();
      cs();
      g_in_lib = true;
      auto x = g.UpgradeToX();
      g_in_lib = false;
      on_convert(rq, M_X);
      cs();
      g_in_lib = true;
      auto s = x.DowngradeToSIX();
      g_in_lib = false;
      on_convert(rq, M_SIX);
      cs();
      on_release(rq);
      g_in_lib = true;
      { auto g2 = std::move(s); }
      g_in_lib = false;
      break;
    }
  }
  tr("T%d op done", g_cur->id);
}

static void
vt_entry(int idx)
{
  VT *me = g_vts[idx];
  for (auto &op : me->script) {
    run_op(op);
    if (g_failed) break;
  }
  me->done = true;
  swapcontext(&me->ctx, &g_main);
}

/* ------------------------------------------------------------------ scheduler */
struct Chooser {
  // returns index into candidates
  virtual size_t choose(const std::vector<int> &cands, int cur_idx_in_cands) = 0;
  virtual bool flush_now() { return true; }
  virtual size_t pick(size_t) { return 0; }
  virtual ~Chooser() = default;
};

struct RandomChooser : Chooser {
  std::mt19937_64 rng;
  double stick;
  double flushp = 0.2;
  RandomChooser(uint64_t seed, double s) : rng(seed), stick(s) {}
  bool flush_now() override { return std::uniform_real_distribution<>(0, 1)(rng) < flushp; }
  size_t pick(size_t n) override { return rng() % n; }
  size_t
  choose(const std::vector<int> &cands, int cur) override
  {
    if (cur >= 0 && std::uniform_real_distribution<>(0, 1)(rng) < stick) return cur;
    return rng() % cands.size();
  }
};

// DFS with preemption bound (stateless, replay)
struct DfsChooser : Chooser {
  std::vector<std::pair<int, int>> path;  // (choice, n options)
  size_t pos = 0;
  int preempt_bound;
  int preempts = 0;
  explicit DfsChooser(int pb) : preempt_bound(pb) {}
  void
  restart()
  {
    pos = 0;
    preempts = 0;
  }
  size_t
  choose(const std::vector<int> &cands, int cur) override
  {
    // option ordering: option 0 = continue current (if possible), others = the rest
    std::vector<size_t> order;
    if (cur >= 0) order.push_back(cur);
    bool can_preempt = (cur < 0) || preempts < preempt_bound;
    if (can_preempt)
      for (size_t i = 0; i < cands.size(); ++i)
        if ((int)i != cur) order.push_back(i);
    if (order.size() == 1) return order[0];
    size_t k;
    if (pos < path.size()) {
      k = path[pos].first;
    } else {
      path.emplace_back(0, (int)order.size());
      k = 0;
    }
    ++pos;
    if (cur >= 0 && k != 0) ++preempts;
    return order[k];
  }
  bool
  next()
  {
    while (!path.empty()) {
      auto &b = path.back();
      if (b.first + 1 < b.second) {
        ++b.first;
        return true;
      }
      path.pop_back();
    }
    return false;
  }
};

static bool g_deadlock = false;

static void
run_scenario(const std::vector<std::vector<OpSpec>> &scripts, Chooser &ch, uint64_t max_steps)
{
  // reset
  g_trace.clear();
  g_failed = false;
  g_fail_msg.clear();
  g_deadlock = false;
  g_reqs.clear();
  g_arrival_ctr.assign(g_nlocks, 0);
  g_wepoch = 1;
  g_steps = 0;
  g_live_nodes = 0;
  g_max_live = 0;
  for (auto &kv : g_nodes) free((void *)kv.first);
  g_nodes.clear();
  g_freelist.clear();
  delete[] reinterpret_cast<char *>(g_locks);
  g_locks = reinterpret_cast<MCSLock *>(new char[sizeof(MCSLock) * g_nlocks]());
  for (auto *t : g_vts) {
    free(t->stack);
    delete t;
  }
  g_vts.clear();

  for (size_t i = 0; i < scripts.size(); ++i) {
    VT *t = new VT;
    t->id = (int)i;
    t->script = scripts[i];
    t->stack = (char *)malloc(256 * 1024);
    getcontext(&t->ctx);
    t->ctx.uc_stack.ss_sp = t->stack;
    t->ctx.uc_stack.ss_size = 256 * 1024;
    t->ctx.uc_link = &g_main;
    makecontext(&t->ctx, (void (*)())vt_entry, 1, (int)i);
    g_vts.push_back(t);
  }

  int cur = -1;
  uint64_t last_confirm_epoch = 0;
  while (true) {
    if (g_failed) break;
    // thread exit: free the tls node of finished threads
    for (auto *t : g_vts) {
      if (t->done && !t->exited) {
        flush_all(t);
        t->exited = true;
        if (t->tls) {
          tr("T%d exits, deleting its tls node %04lx", t->id, (unsigned long)((uintptr_t)t->tls & 0xffff));
          delete t->tls;
          t->tls = nullptr;
        } else {
          tr("T%d exits (no tls node)", t->id);
        }
      }
    }
    std::vector<int> cands;
    int cur_in = -1;
    bool any_alive = false;
    for (auto *t : g_vts) {
      if (t->done) continue;
      any_alive = true;
      if (t->blocked_epoch == g_wepoch) continue;
      if (t->id == cur) cur_in = (int)cands.size();
      cands.push_back(t->id);
    }
    if (!any_alive) break;
    if (g_pso) {
      // a buffered store may become visible at any moment
      std::vector<VT *> withbuf;
      for (auto *t : g_vts)
        if (!t->sbuf.empty()) withbuf.push_back(t);
      if (!withbuf.empty() && (cands.empty() || ch.flush_now())) {
        VT *t = withbuf[ch.pick(withbuf.size())];
        flush_one(t, ch.pick(t->sbuf.size()));
        continue;
      }
    }
    if (cands.empty()) {
      if (last_confirm_epoch == g_wepoch) {
        g_deadlock = true;
        fail("C02: DEADLOCK - all live threads spin and nothing changes");
        break;
      }
      last_confirm_epoch = g_wepoch;
      for (auto *t : g_vts) {
        t->blocked_epoch = ~0ULL;
        t->last_load_addr = nullptr;
      }
      continue;
    }
    if (g_steps > max_steps) {
      fail("step budget exceeded (livelock?)");
      break;
    }
    size_t k = ch.choose(cands, cur_in);
    cur = cands[k];
    VT *t = g_vts[cur];
    g_cur = t;
    MCSLock::tls_node_.reset(t->tls);
    t->tls = nullptr;
    swapcontext(&g_main, &t->ctx);
    t->tls = MCSLock::tls_node_.release();
    g_cur = nullptr;
    g_in_lib = false;
  }

  if (!g_failed) {
    // end-state checks
    for (int i = 0; i < g_nlocks; ++i) {
      uint64_t v = *reinterpret_cast<uint64_t *>(&g_locks[i].lock_);
      if (v != 0) fail("C02: lock L%d not free after all guards released: %s", i, val_str(v).c_str());
    }
    if (g_live_nodes != 0) fail("C12: %zu queue nodes leaked after all threads exited", g_live_nodes);
    size_t bound = scripts.size() * 2;
    if (g_max_live > bound) fail("C12: %zu live nodes > bound %zu", g_max_live, bound);
  } else {
    // cannot safely unwind the contexts; just drop them (leaks are fine here)
  }
}

static void
dump_trace(FILE *f, const std::vector<std::vector<OpSpec>> &scripts)
{
  for (size_t i = 0; i < scripts.size(); ++i) {
    fprintf(f, "T%zu script:", i);
    for (auto &op : scripts[i]) fprintf(f, " %s@L%d", kOpName[op.kind], op.lock);
    fprintf(f, "\n");
  }
  for (auto &s : g_trace) fprintf(f, "%s\n", s.c_str());
}

static std::vector<std::vector<OpSpec>>
parse_scripts(const char *s)
{
  // format: "S,X|SIX>X|X>SIX"   threads separated by '|', ops by ','; optional @n lock suffix
  std::vector<std::vector<OpSpec>> out(1);
  std::string tok;
  auto flush = [&]() {
    if (tok.empty()) return;
    int lock = 0;
    auto at = tok.find('@');
    if (at != std::string::npos) {
      lock = atoi(tok.c_str() + at + 1);
      tok = tok.substr(0, at);
    }
    int kind = -1;
    for (int k = 0; k < OP_KINDS; ++k)
      if (tok == kOpName[k]) kind = k;
    if (kind < 0) {
      fprintf(stderr, "bad op %s\n", tok.c_str());
      exit(2);
    }
    out.back().push_back({kind, lock});
    tok.clear();
  };
  for (const char *p = s; *p; ++p) {
    if (*p == ',') {
      flush();
    } else if (*p == '|') {
      flush();
      out.emplace_back();
    } else {
      tok += *p;
    }
  }
  flush();
  return out;
}

int
main(int argc, char **argv)
{
  std::string mode = argc > 1 ? argv[1] : "random";
  if (mode == "random") {
    // random <seed0> <count> [nthreads_max] [ops_max] [nlocks] [reuse]
    uint64_t seed0 = argc > 2 ? strtoull(argv[2], 0, 10) : 1;
    uint64_t count = argc > 3 ? strtoull(argv[3], 0, 10) : 1000;
    int tmax = argc > 4 ? atoi(argv[4]) : 4;
    int omax = argc > 5 ? atoi(argv[5]) : 3;
    g_nlocks = argc > 6 ? atoi(argv[6]) : 1;
    g_reuse_addr = argc > 7 ? atoi(argv[7]) : 0;
    g_pso = argc > 8 ? atoi(argv[8]) : 0;
    for (uint64_t s = seed0; s < seed0 + count; ++s) {
      std::mt19937_64 rng(s * 7919 + 13);
      int nt = 2 + rng() % (tmax - 1);
      std::vector<std::vector<OpSpec>> scripts(nt);
      // op weights profile
      int profile = rng() % 4;
      for (auto &sc : scripts) {
        int no = 1 + rng() % omax;
        for (int i = 0; i < no; ++i) {
          int kind;
          if (profile == 0)
            kind = rng() % OP_KINDS;
          else if (profile == 1)
            kind = (rng() % 3 == 0) ? (int)(rng() % OP_KINDS) : (int)OP_S;
          else if (profile == 2)
            kind = (rng() % 2) ? (int)OP_S : (int)(3 + rng() % 4);
          else
            kind = rng() % 3;
          sc.push_back({kind, (int)(rng() % g_nlocks)});
        }
      }
      static const double sticks[] = {0.0, 0.5, 0.8, 0.9, 0.95, 0.98};
      RandomChooser ch(s, sticks[rng() % 6]);
      static const double fl[] = {0.02, 0.1, 0.3, 0.6};
      ch.flushp = fl[rng() % 4];
      run_scenario(scripts, ch, 200000);
      if (g_failed) {
        printf("seed %lu FAILED: %s\n", (unsigned long)s, g_fail_msg.c_str());
        dump_trace(stdout, scripts);
        return 1;
      }
      if (s % 10000 == 0) fprintf(stderr, "seed %lu ok\n", (unsigned long)s);
    }
    printf("random: %lu scenarios ok\n", (unsigned long)count);
    return 0;
  }
  if (mode == "fixed") {
    // fixed "<scripts>" <seed0> <count> <pso> : given scripts, random schedules
    auto scripts = parse_scripts(argv[2]);
    uint64_t seed0 = argc > 3 ? strtoull(argv[3], 0, 10) : 1;
    uint64_t count = argc > 4 ? strtoull(argv[4], 0, 10) : 1000;
    g_pso = argc > 5 ? atoi(argv[5]) : 0;
    for (uint64_t s = seed0; s < seed0 + count; ++s) {
      std::mt19937_64 rng(s * 7919 + 13);
      static const double sticks[] = {0.0, 0.5, 0.8, 0.9, 0.95, 0.98};
      RandomChooser ch(s, sticks[rng() % 6]);
      static const double fl[] = {0.02, 0.1, 0.3, 0.6};
      ch.flushp = fl[rng() % 4];
      run_scenario(scripts, ch, 200000);
      if (g_failed) {
        printf("schedule seed %lu FAILED: %s\n", (unsigned long)s, g_fail_msg.c_str());
        dump_trace(stdout, scripts);
        return 1;
      }
    }
    printf("fixed: %lu schedules ok\n", (unsigned long)count);
    return 0;
  }
  if (mode == "dfs") {
    // dfs "<scripts>" <preempt_bound> [nlocks] [reuse] [max_execs]
    auto scripts = parse_scripts(argv[2]);
    int pb = argc > 3 ? atoi(argv[3]) : 2;
    g_nlocks = argc > 4 ? atoi(argv[4]) : 1;
    g_reuse_addr = argc > 5 ? atoi(argv[5]) : 0;
    uint64_t maxe = argc > 6 ? strtoull(argv[6], 0, 10) : ~0ULL;
    DfsChooser ch(pb);
    uint64_t execs = 0;
    do {
      ch.restart();
      run_scenario(scripts, ch, 200000);
      ++execs;
      if (g_failed) {
        printf("dfs exec %lu FAILED: %s\n", (unsigned long)execs, g_fail_msg.c_str());
        dump_trace(stdout, scripts);
        return 1;
      }
      if (execs % 100000 == 0) fprintf(stderr, "%lu execs, depth %zu\n", (unsigned long)execs, ch.path.size());
    } while (execs < maxe && ch.next());
    printf("dfs: %lu executions ok (preemption bound %d)\n", (unsigned long)execs, pb);
    return 0;
  }
  fprintf(stderr, "usage\n");
  return 2;
}
