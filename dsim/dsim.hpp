// dsim -- deterministic simulation runtime over the TSan ABI seam (see DESIGN.md section 2).
//
// This header is included both by the (uninstrumented) runtime and by the harness TUs that are
// compiled with -fsanitize=thread.  It contains no std::atomic and no allocation.
#ifndef DSIM_HPP_
#define DSIM_HPP_

#include <cstddef>
#include <cstdint>

namespace dsim
{

constexpr int kMaxVT = 32;  // virtual threads per run (including restarted ones)

enum Strategy : int { kRandom = 0, kSticky = 1, kPCT = 2, kStall = 3, kSequential = 4 };

enum Status : int {
  kOk = 0,
  kViolation = 1,   // an oracle (harness or runtime) reported a property violation
  kDeadlock = 2,    // no vthread can make progress (section 2.7)
  kStepCap = 3,     // inconclusive
  kCrash = 4,       // SIGSEGV/SIGBUS/SIGFPE/abort inside simulated code
  kDiverged = 5     // strict replay could not follow the recorded decisions
};

enum FaultKind : int {
  kFPreempt = 0,
  kFStall,
  kFCasSpurious,
  kFOversleep,
  kFEintr,
  kFThreadExit,     // counted by the harness (generated operations)
  kFThreadRestart,  // counted by the harness
  kFPlainPreempt,
  kFStoreBuffered,  // TSO mode: an atomic store was held back in the store buffer while its thread went on
  kFaultKinds
};

struct Config {
  uint64_t sched_seed = 1;
  uint64_t fault_seed = 1;
  int strategy = kRandom;
  int pct_depth = 2;
  int pct_len = 150;             // expected number of steps (PCT change points are drawn in it)
  int sticky_percent = 70;       // kSticky / kStall: probability to keep running the same vthread
  int cas_spurious_permille = 0; // compare_exchange_weak fails spuriously
  int oversleep_permille = 0;    // nanosleep wakes (much) later than asked
  int eintr_permille = 0;        // nanosleep returns EINTR
  int stall_permille = 0;        // per scheduling point: start a stall of a runnable vthread
  int stall_max = 400;           // maximum stall length in steps
  int spin_bound = 28;           // B of section 2.7
  uint64_t max_steps = 200000;
  bool plain_sched = false;      // C19: plain accesses to watched ranges are scheduling points
  bool tso = false;              // x86-TSO store buffers inside API calls (non-seq_cst atomic stores are delayed past later loads)
  int tso_drain_percent = 25;    // per scheduling point: probability that the memory system drains one buffered store
  bool weak_stores = false;      // with tso: only release-class operations (and same-address accesses) drain the buffer, so a relaxed
                                 // store may become visible after a later acquire/relaxed read-modify-write (ARM/POWER-like W->W reordering)
  // replay: explicit decision list (one chosen vthread per scheduling point)
  const uint8_t *replay_choices = nullptr;
  size_t replay_len = 0;
  bool replay_strict = false;    // true: any divergence ends the run with kDiverged
  bool trace = false;            // print every step to stderr
};

struct Result {
  int status = kOk;
  char cls[96] = {0};            // violation class ("C01/registry-conflict", "deadlock", ...)
  char msg[1024] = {0};
  uint64_t steps = 0;
  uint64_t switches = 0;
  uint64_t switches_in_api = 0;  // context switches away from a vthread that was inside an API call
  uint64_t trace_hash = 0;
  uint64_t sim_ns = 0;
  uint64_t faults[kFaultKinds] = {0};
  uint64_t new_states = 0;       // canonical shared states first seen in this run (per process)
  uint64_t max_api_overlap = 0;  // max number of vthreads simultaneously inside an API call
  uint64_t spin_blocks = 0;
  uint64_t grace_phases = 0;
  uint64_t uaf_notes = 0;        // use-after-free on blocks whose tag policy is "note" (not a property)
  uint64_t divergences = 0;      // guided replay: recorded choice not enabled
  bool forced_nontrivial = false; // the harness declared the run non-trivial by its own rule (note_nontrivial)
  int nvt = 0;
  const uint8_t *choices = nullptr;  // recorded decisions (valid until the next run)
  size_t nchoices = 0;
};

using Fn = void (*)(void *);

// ---- controller side (called from the process' main thread, never from a vthread) -------------
void init();                                    // once per process
void pin_to_cpu(int cpu);                       // all threads of this process share one core (cheap hand-off)
// runs `fn(arg)` as vthread 0 and returns when every vthread has finished.  If the run ends
// abnormally the abort callback is invoked (in whatever thread detected it) and must not return.
Result run(const Config &cfg, Fn fn, void *arg);
void set_abort_callback(void (*cb)(const Result &));
uint64_t distinct_states();                     // size of the per-process canonical state set

// ---- vthread side ------------------------------------------------------------------------------
int self();                                     // index of the calling vthread, -1 outside
int spawn(Fn fn, void *arg, const char *name);  // scheduling point
int next_vt_id();                               // the id the next spawn() will return (spawn has a scheduling point before it returns)
void join(int vt);                              // scheduling point; happens-before edge
void yield();                                   // explicit scheduling point
void wait_signal();                             // block until signal(self) (counted, no lost wake-up)
void signal(int vt);
bool finished(int vt);
uint64_t seq();                                 // global event sequence number (scheduling steps)
uint64_t now_ns();

// API-call bracket: context for deadlock reports, spin detection reset, overlap measurement
void op_begin(const char *ctx, int obj);        // ctx must outlive the run (static or arena)
void op_end();
void op_end_keep_buffered();                   // TSO mode: the call returns while its last stores may still sit in the store buffer
void set_pos(int pos);                          // per-vthread program position (state canonicalisation)

// first successful write by this vthread into [addr, addr+len) since the call; 0 = none (C11)
void watch_write(const void *addr, size_t len);
uint64_t watched_write_seq();
int watched_write_seqs(uint64_t *out, int max);  // every successful write into the watched range since watch_write (up to 8 are kept)

// oracle code that touches instrumented atomics: executed raw (no scheduling, no clocks, no PRNG);
// `cap` bounds the number of raw atomic operations, exceeding it sets overflowed().
struct Observer {
  explicit Observer(uint64_t cap = 4096);
  ~Observer();
  bool overflowed() const;
};

// ---- happens-before engine ---------------------------------------------------------------------
struct Epoch {
  int t = -1;
  uint32_t c = 0;
};
Epoch hb_mark();                 // increments the caller's own component and returns it
bool hb_before(Epoch e);         // e happens-before the caller's current point
// FastTrack-style race check for registered payload words; returns false on a race and fills who
bool payload_read(const void *addr, int *racer);
bool payload_write(const void *addr, int *racer);

// ---- heap tracker ------------------------------------------------------------------------------
enum UafPolicy : int { kUafViolation = 0, kUafNote = 1 };
void set_alloc_tag(int tag);     // tag given to blocks allocated by this vthread from now on
int alloc_tag();
void set_uaf_policy(int tag, int policy);
size_t heap_live(int tag);       // live blocks with this tag (-1: any)
size_t heap_live_bytes(int tag);
size_t heap_live_aligned(int tag, size_t min_size, size_t align);  // live blocks of a size class
size_t heap_total_allocs(int tag);
bool heap_is_freed(const void *p);  // p lies in a quarantined block
void watch_range(const void *addr, size_t len);   // C19 watched range (plain mode)
uint64_t watched_plain_writes();

// ---- reporting ---------------------------------------------------------------------------------
[[noreturn]] void fail(const char *cls, const char *fmt, ...) __attribute__((format(printf, 2, 3)));
void count_fault(int kind);
void probe(int id);              // reach probes (harness defined ids < 64)
uint64_t probe_count(int id);    // within the current run
void note_nontrivial();          // harness may force the non-trivial flag
size_t format_tail(char *buf, size_t n);  // human-readable rendering of the last steps

// deterministic PRNG helpers (splitmix64 / xoshiro256**) shared by generators
struct Rng {
  uint64_t s[4];
  explicit Rng(uint64_t seed);
  uint64_t next();
  uint64_t below(uint64_t n);    // uniform in [0, n)
  bool chance(uint64_t num, uint64_t den);
};
uint64_t mix64(uint64_t a, uint64_t b);

}  // namespace dsim

#endif  // DSIM_HPP_
