#!/bin/bash
# exits non-zero iff ThreadSanitizer reports that the deallocation of a queue
# node (tls_node_.reset in Unlock*) races with an earlier atomic read of that
# node by another member of the queue group.
cd "$(dirname "$0")"
ROOT=${ROOT:-/tmp/mut/H1}
B=${BUILD:-/tmp/mut/H1-build/F3}
mkdir -p "$B"
g++ -std=c++20 -O1 -g -fsanitize=thread -I$ROOT/include \
  -DDBGROUP_MAX_THREAD_NUM=16 -DCPP_UTILITY_SPINLOCK_RETRY_NUM=10 -DCPP_UTILITY_BACKOFF_TIME=10 \
  -DCPP_UTILITY_HAS_SPINLOCK_HINT demo.cpp $ROOT/src/lock/mcs_lock.cpp -o $B/demo -lpthread 2>$B/build.log || { echo "build failed"; cat $B/build.log; exit 2; }
rc=0
for try in 1 2 3; do
  TSAN_OPTIONS="exitcode=0" $B/demo > $B/out.txt 2>&1
  if grep -A6 "^  Write of size 8" $B/out.txt | grep -q "MCSLock::UnlockS" \
     && grep -A3 "Previous atomic read of size 8" $B/out.txt | grep -q "MCSLock::UnlockS(.*mcs_lock.cpp:174"; then
    echo "VIOLATION SHOWN: delete of a queue node (tls_node_.reset in UnlockS) is unordered with another thread's read of that node (mcs_lock.cpp:174)"
    grep -A6 -E "^  Write of size 8|Previous atomic read of size 8" $B/out.txt | grep -E "Write of|Previous atomic|operator delete|MCSLock::UnlockS|demo.cpp" | head -10
    rc=1
    break
  fi
done
[ $rc = 0 ] && { echo "no race reported"; tail -5 $B/out.txt; }
exit $rc
