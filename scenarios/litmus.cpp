// Litmus tests for the dsim runtime itself (trusted base): each family is a tiny program with std::atomic whose set of reachable
// outcomes under the C++ memory model / x86-TSO is known.  The run records its outcome as probe (outcome id); bin/selftest-litmus
// checks, over thousands of seeds, that every allowed outcome is reached in the mode that allows it and that forbidden ones never are.
// Compiled with -fsanitize=thread like every other scenario, so the atomics below go through the same seam as the library's.
#include <atomic>
#include <string>
#include <vector>

#include "common.hpp"

namespace sim
{
namespace
{
enum Family : int {
  kMP = 0,        // message passing, release/acquire: reader that sees the flag must see the data (race detector + value)
  kMPRelaxed,     // same with a relaxed flag: the race detector must report it
  kRelSeq,        // release sequence continued by a relaxed RMW of a third thread
  kFences,        // relaxed store after release fence / relaxed load before acquire fence
  kSB,            // store buffering: r1 = r2 = 0 forbidden under SC, allowed with store buffers, forbidden again with seq_cst fences
  kSBFenced,
  kWeakStore,     // relaxed store overtaken by a later acquire RMW on another location: only in weak-store mode
  kDeadlock,      // two threads spin on each other's flag: must be reported as a deadlock state
  kNoDeadlock,    // a spinner whose flag is eventually set: must terminate, never a deadlock verdict
  kUaf,           // use after free of a tracked block must be reported
  kFamilies
};
const char *kFamilyName[] = {"MP", "MP-relaxed", "release-sequence", "fences", "SB", "SB-fenced", "weak-store", "deadlock", "no-deadlock", "use-after-free"};

// outcome probes: 0..15 = outcome id, 20 = race reported by the payload detector, 21 = no race
const char *const kProbeNames[] = {"outcome0", "outcome1", "outcome2", "outcome3", "outcome4", "outcome5", "outcome6", "outcome7", "o8", "o9", "o10",
                                   "o11", "o12", "o13", "o14", "o15", "o16", "o17", "o18", "o19", "race_reported", "no_race", nullptr};

struct Shared {
  std::atomic<uint64_t> x{0}, y{0}, z{0};
  uint64_t data = 0;
  uint64_t r1 = 0, r2 = 0;
  bool race = false;
  int family = 0;
};
Shared *S = nullptr;

void note_race(bool ok)
{
  if (!ok) S->race = true;
}

void t1(void *)
{
  dsim::op_begin("T1", 0);
  int who = -1;
  switch (S->family) {
    case kMP:
      note_race(dsim::payload_write(&S->data, &who));
      S->data = 42;
      S->x.store(1, std::memory_order_release);
      break;
    case kMPRelaxed:
      note_race(dsim::payload_write(&S->data, &who));
      S->data = 42;
      S->x.store(1, std::memory_order_relaxed);
      break;
    case kRelSeq:
      note_race(dsim::payload_write(&S->data, &who));
      S->data = 42;
      S->x.store(1, std::memory_order_release);
      break;
    case kFences:
      note_race(dsim::payload_write(&S->data, &who));
      S->data = 42;
      std::atomic_thread_fence(std::memory_order_release);
      S->x.store(1, std::memory_order_relaxed);
      break;
    case kSB:
      S->x.store(1, std::memory_order_relaxed);
      S->r1 = S->y.load(std::memory_order_relaxed);
      dsim::yield();  // the call does not end (and drain the buffer) right after the load
      dsim::yield();
      break;
    case kSBFenced:
      S->x.store(1, std::memory_order_relaxed);
      std::atomic_thread_fence(std::memory_order_seq_cst);
      S->r1 = S->y.load(std::memory_order_relaxed);
      dsim::yield();
      dsim::yield();
      break;
    case kWeakStore:
      S->x.store(1, std::memory_order_relaxed);          // may be delayed in weak-store mode ...
      S->y.exchange(1, std::memory_order_acquire);        // ... past this acquire-only read-modify-write
      dsim::yield();
      dsim::yield();
      dsim::yield();
      break;
    case kDeadlock:
      while (S->y.load(std::memory_order_acquire) == 0) {
      }
      S->x.store(1, std::memory_order_release);
      break;
    case kNoDeadlock:
      while (S->y.load(std::memory_order_acquire) == 0) {
      }
      break;
    default: break;
  }
  dsim::op_end();
}

void t2(void *)
{
  dsim::op_begin("T2", 0);
  int who = -1;
  switch (S->family) {
    case kMP:
    case kMPRelaxed:
      if (S->x.load(S->family == kMP ? std::memory_order_acquire : std::memory_order_relaxed) == 1) {
        note_race(dsim::payload_read(&S->data, &who));
        S->r1 = S->data;
        S->r2 = 1;
      }
      break;
    case kRelSeq:
      S->x.fetch_add(1, std::memory_order_relaxed);  // continues T1's release sequence if it comes after T1's store
      break;
    case kFences:
      if (S->x.load(std::memory_order_relaxed) == 1) {
        std::atomic_thread_fence(std::memory_order_acquire);
        note_race(dsim::payload_read(&S->data, &who));
        S->r1 = S->data;
        S->r2 = 1;
      }
      break;
    case kSB:
      S->y.store(1, std::memory_order_relaxed);
      S->r2 = S->x.load(std::memory_order_relaxed);
      dsim::yield();
      dsim::yield();
      break;
    case kSBFenced:
      S->y.store(1, std::memory_order_relaxed);
      std::atomic_thread_fence(std::memory_order_seq_cst);
      S->r2 = S->x.load(std::memory_order_relaxed);
      dsim::yield();
      dsim::yield();
      break;
    case kWeakStore:
      S->r1 = S->y.load(std::memory_order_acquire);
      S->r2 = S->x.load(std::memory_order_relaxed);
      break;
    case kDeadlock:
      while (S->x.load(std::memory_order_acquire) == 0) {
      }
      S->y.store(1, std::memory_order_release);
      break;
    case kNoDeadlock:
      for (int i = 0; i < 5; ++i) dsim::yield();
      S->y.store(1, std::memory_order_release);
      break;
    default: break;
  }
  dsim::op_end();
}

void t3(void *)
{
  dsim::op_begin("T3", 0);
  int who = -1;
  if (S->family == kRelSeq) {
    // reads 2 only if T2's relaxed RMW came after T1's release store: that RMW continues the release sequence, so this acquire load
    // synchronises with T1 and the data access is race free
    if (S->x.load(std::memory_order_acquire) == 2) {
      note_race(dsim::payload_read(&S->data, &who));
      S->r1 = S->data;
      S->r2 = 1;
    }
  }
  dsim::op_end();
}

void entry(void *)
{
  const Program &p = current_program();
  S = new Shared{};
  S->family = p.family;
  if (p.family == kUaf) {
    auto *blk = new std::atomic<uint64_t>{7};
    delete blk;
    dsim::op_begin("use after free", 0);
    (void)blk->load(std::memory_order_relaxed);  // must end the run with heap/use-after-free
    dsim::op_end();
    dsim::probe(0);
    return;
  }
  const int a = dsim::spawn(t1, nullptr, "T1");
  const int b = dsim::spawn(t2, nullptr, "T2");
  int c = -1;
  if (p.family == kRelSeq) c = dsim::spawn(t3, nullptr, "T3");
  dsim::join(a);
  dsim::join(b);
  if (c >= 0) dsim::join(c);
  int outcome = 0;
  switch (p.family) {
    case kMP:
    case kMPRelaxed:
    case kFences:
    case kRelSeq:
      outcome = S->r2 == 0 ? 0 : (S->r1 == 42 ? 1 : 2);  // 0: flag not seen; 1: flag and data seen; 2: flag seen, stale data
      break;
    case kSB:
    case kSBFenced:
    case kWeakStore:
      outcome = static_cast<int>(S->r1 * 2 + S->r2);  // SB: 0 = both read 0.  weak-store: 2 = saw the RMW (r1=1) but not the earlier store (r2=0)
      break;
    default: outcome = 0; break;
  }
  dsim::probe(outcome);
  dsim::probe(S->race ? 20 : 21);
  dsim::note_nontrivial();
  delete S;
  S = nullptr;
}

// profile: 0 = SC, 1 = TSO store buffers, 2 = weak stores
void generate(Program &prog, dsim::Config &cfg, dsim::Rng &, dsim::Rng &cr, int family, int profile)
{
  prog.params = {family, profile};
  prog.threads = {{Op{}}, {Op{}}};
  cfg.strategy = static_cast<int>(cr.below(3));  // random, sticky, PCT
  cfg.sticky_percent = 30 + static_cast<int>(cr.below(60));
  cfg.pct_depth = 1 + static_cast<int>(cr.below(3));
  cfg.pct_len = 20;
  cfg.spin_bound = 12;
  cfg.max_steps = 20000;
  cfg.tso = profile >= 1;
  cfg.weak_stores = profile >= 2;
  static const int kDrain[] = {1, 5, 25};
  cfg.tso_drain_percent = kDrain[cr.below(3)];
}

std::string render(const Program &p)
{
  static const char *modes[] = {"SC", "TSO", "weak stores"};
  return std::string("litmus ") + kFamilyName[p.family % kFamilies] + " under " + modes[p.profile % 3] + "\n";
}

std::string tags(const Program &, const char *cls)
{
  return std::string("[litmus] ") + cls;
}
}  // namespace

const Scenario kLitmusScenario = {"litmus", generate, entry, render, tags, kProbeNames, nullptr};

}  // namespace sim
