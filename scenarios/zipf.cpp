// Zipf generator scenario: C19 (generators are pure functions of parameters and engine).
// The schedule clause is simulation material: K vthreads share one const generator, each with its own engine; in mode `plain`
// every plain access of operator() to shared memory (the generator object, its CDF buffer, static storage) is a scheduling point.
// The input-only clauses (equal parameters / copy / move give equal outputs, max < min throws) are evaluated on the same draws.
#include <cstring>
#include <random>
#include <stdexcept>
#include <string>
#include <vector>

#include "common.hpp"
#include "dbgroup/random/zipf.hpp"

namespace sim
{
namespace
{
using dbgroup::random::ApproxZipfDistribution;
using dbgroup::random::ZipfDistribution;

enum Probe : int { pSamples = 0, pSharedReads, pExact, pApprox, pThrowChecked, pLargeN, pCopies, pProbes };
const char *const kProbeNames[] = {"concurrent_samples_compared", "runs_with_interleaved_shared_reads", "exact_generator_runs", "approx_generator_runs",
                                   "invalid_range_rejected", "runs_with_more_than_100_bins", "independent_copies_compared", nullptr};

std::string g_prop;
bool tagged(const char *tags) { return g_prop.empty() || strstr(tags, g_prop.c_str()) != nullptr; }
uint64_t g_other = 0;
#define ORACLE(tags, cls, ...)                      \
  do {                                              \
    if (tagged(tags)) {                             \
      char _c[160];                                 \
      snprintf(_c, sizeof(_c), "%s %s", tags, cls); \
      dsim::fail(_c, __VA_ARGS__);                  \
    } else {                                        \
      g_other++;                                    \
    }                                               \
  } while (0)

// params: [class (0 exact, 1 approx), integer type 0..3, min, max, alpha*1000]; thread t: op {a = engine seed, b = samples}
template <class Gen, class Int>
struct Run {
  const Gen *gen = nullptr;
  std::vector<std::vector<Int>> solo, got;
  const Program *prog = nullptr;

  struct Arg {
    Run *r;
    int t;
  };
  static void sampler(void *p)
  {
    auto *a = static_cast<Arg *>(p);
    const Op &o = a->r->prog->threads[static_cast<size_t>(a->t)][0];
    std::mt19937_64 eng{static_cast<uint64_t>(o.a)};  // on this vthread's stack: private
    Int buf[64];
    const int n = static_cast<int>(o.b > 64 ? 64 : o.b);
    for (int i = 0; i < n; ++i) {
      dsim::set_pos(i + 1);
      dsim::op_begin("operator()", 0);
      buf[i] = (*a->r->gen)(eng);
      dsim::op_end();
    }
    a->r->got[static_cast<size_t>(a->t)].assign(buf, buf + n);
  }

  void go(const Program &p, Int mn, Int mx, double alpha)
  {
    prog = &p;
    Gen *g = new Gen{mn, mx, alpha};
    gen = g;
    const size_t K = p.threads.size();
    solo.resize(K);
    got.resize(K);
    // the sequence each engine yields alone was computed by a cold child process (Scenario::reference): hidden process-global
    // state of the code under test (a static cache, say) is neither warmed by the reference computation nor shared with it
    {
      const std::vector<int64_t> &ref = reference_data();
      size_t pos = 0;
      for (size_t t = 0; t < K; ++t) {
        const Op &o = p.threads[t][0];
        const int n = static_cast<int>(o.b > 64 ? 64 : o.b);
        for (int i = 0; i < n && pos < ref.size(); ++i) solo[t].push_back(static_cast<Int>(ref[pos++]));
        if (static_cast<int>(solo[t].size()) != n) dsim::fail("[harness] zipf-reference-missing", "reference data incomplete");
      }
    }
    // byte image of the shared generator before the concurrent phase
    std::vector<unsigned char> before(sizeof(Gen));
    {
      dsim::Observer ob;
      std::memcpy(before.data(), static_cast<const void *>(g), sizeof(Gen));
    }
    dsim::watch_range(g, sizeof(Gen));
    std::vector<Arg> args(K);
    std::vector<int> ids(K);
    for (size_t t = 0; t < K; ++t) {
      args[t] = Arg{this, static_cast<int>(t)};
      ids[t] = dsim::spawn(sampler, &args[t], "sampler");
    }
    for (size_t t = 0; t < K; ++t) dsim::join(ids[t]);
    {
      dsim::Observer ob;
      if (std::memcmp(before.data(), static_cast<const void *>(g), sizeof(Gen)) != 0 || dsim::watched_plain_writes() != 0) {
        ORACLE("[C19]", "generator-modified-by-sampling", " :: the shared const generator object was written %lu time(s) while threads sampled from it",
               static_cast<unsigned long>(dsim::watched_plain_writes()));
      }
    }
    for (size_t t = 0; t < K; ++t) {
      for (size_t i = 0; i < solo[t].size(); ++i) {
        dsim::probe(pSamples);
        if (i >= got[t].size() || got[t][i] != solo[t][i]) {
          ORACLE("[C19]", "shared-generator-sequence-differs", " :: thread %zu sample %zu is %lld when sharing the generator, %lld alone (engine seed %ld)", t, i,
                 static_cast<long long>(i < got[t].size() ? got[t][i] : 0), static_cast<long long>(solo[t][i]), static_cast<long>(p.threads[t][0].a));
          break;
        }
      }
    }
    dsim::probe(pSharedReads);
    // input-only clauses on the same draws (no schedule involved): equal parameters / copy / moved-to generators give the same outputs,
    // max < min is rejected
    {
      dsim::Observer ob(1ull << 40);
      Gen same{mn, mx, alpha};
      Gen copy{*g};
      Gen tmp{*g};
      Gen moved{std::move(tmp)};
      // copies are independent objects: one whose source has been destroyed, one copy-assigned over a generator with other
      // parameters, one whose source was re-parameterised afterwards (same number of bins, so an in-place assignment)
      Gen *src = new Gen{mn, mx, alpha};
      Gen detached{*src};
      Gen assigned{mn, mn, alpha + 0.75};
      assigned = *src;
      delete src;
      Gen src2{*g};
      Gen survivor{src2};
      src2 = Gen{mn, mx, alpha + 1.5};
      std::vector<bool> copies_done(K, false);
      auto copies_checked_for = [&](size_t t) {
        const bool was = copies_done[t];
        copies_done[t] = true;
        return was;
      };
      for (size_t t = 0; t < K; ++t) {
        const Op &o = p.threads[t][0];
        std::mt19937_64 e1{static_cast<uint64_t>(o.a)}, e2{static_cast<uint64_t>(o.a)}, e3{static_cast<uint64_t>(o.a)}, e4{static_cast<uint64_t>(o.a)};
        for (size_t i = 0; i < solo[t].size(); ++i) {
          const Int v = (*g)(e1);
          const Int v2 = same(e2), v3 = copy(e3), v4 = moved(e4);
          if (!copies_checked_for(t)) {
            std::mt19937_64 e5{static_cast<uint64_t>(o.a)}, e6{static_cast<uint64_t>(o.a)}, e7{static_cast<uint64_t>(o.a)};
            for (size_t j = 0; j < solo[t].size(); ++j) {
              const Int d = detached(e5), a2 = assigned(e6), sv = survivor(e7);
              if (d != solo[t][j] || a2 != solo[t][j] || sv != solo[t][j]) {
                ORACLE("[C19]", "copy-depends-on-its-source", " :: sample %zu of engine seed %ld: expected %lld; copy whose source was destroyed %lld, copy-assigned generator %lld, copy whose source was re-parameterised %lld",
                       j, static_cast<long>(o.a), static_cast<long long>(solo[t][j]), static_cast<long long>(d), static_cast<long long>(a2), static_cast<long long>(sv));
                break;
              }
            }
            dsim::probe(pCopies);
          }
          if (v2 != v || v3 != v || v4 != v || v != solo[t][i]) {
            ORACLE("[C19]", "equal-generators-differ", " :: sample %zu of engine seed %ld: original %lld (alone, cold process: %lld), equal parameters %lld, copy %lld, moved %lld",
                   i, static_cast<long>(o.a), static_cast<long long>(v), static_cast<long long>(solo[t][i]), static_cast<long long>(v2),
                   static_cast<long long>(v3), static_cast<long long>(v4));
          }
        }
      }
      if (mx > mn) {
        bool thrown = false;
        try {
          Gen bad{mx, mn, alpha};
          (void)bad;
        } catch (const std::exception &) {
          thrown = true;
        }
        dsim::probe(pThrowChecked);
        if (!thrown) ORACLE("[C19]", "invalid-range-accepted", " :: construction with max < min (%lld, %lld) did not throw", static_cast<long long>(mx), static_cast<long long>(mn));
      }
    }
    delete g;
  }
};

template <class Int>
void run_typed(const Program &p)
{
  const Int mn = static_cast<Int>(p.params[2]), mx = static_cast<Int>(p.params[3]);
  const double alpha = static_cast<double>(p.params[4]) / 1000.0;
  if (static_cast<uint64_t>(mx) - static_cast<uint64_t>(mn) >= 100) dsim::probe(pLargeN);
  if (p.params[0] == 0) {
    dsim::probe(pExact);
    Run<ZipfDistribution<Int>, Int> r;
    r.go(p, mn, mx, alpha);
  } else {
    dsim::probe(pApprox);
    Run<ApproxZipfDistribution<Int>, Int> r;
    r.go(p, mn, mx, alpha);
  }
}

void entry(void *)
{
  const Program &p = current_program();
  g_other = 0;
  switch (p.params[1]) {
    case 0: run_typed<uint32_t>(p); break;
    case 1: run_typed<uint64_t>(p); break;
    case 2: run_typed<int32_t>(p); break;
    default: run_typed<int64_t>(p); break;
  }
}

// executed in a cold forked child without any simulation: the sequences each thread's engine yields when the generator is used alone
template <class Gen, class Int>
void reference_typed(const Program &p, std::vector<int64_t> &out)
{
  const Int mn = static_cast<Int>(p.params[2]), mx = static_cast<Int>(p.params[3]);
  const double alpha = static_cast<double>(p.params[4]) / 1000.0;
  Gen g{mn, mx, alpha};
  for (auto &t : p.threads) {
    const Op &o = t[0];
    const int n = static_cast<int>(o.b > 64 ? 64 : o.b);
    std::mt19937_64 e{static_cast<uint64_t>(o.a)};
    for (int i = 0; i < n; ++i) out.push_back(static_cast<int64_t>(g(e)));
  }
}
template <class Int>
void reference_int(const Program &p, std::vector<int64_t> &out)
{
  if (p.params[0] == 0) reference_typed<ZipfDistribution<Int>, Int>(p, out); else reference_typed<ApproxZipfDistribution<Int>, Int>(p, out);
}
void reference(const Program &p, std::vector<int64_t> &out)
{
  switch (p.params[1]) {
    case 0: reference_int<uint32_t>(p, out); break;
    case 1: reference_int<uint64_t>(p, out); break;
    case 2: reference_int<int32_t>(p, out); break;
    default: reference_int<int64_t>(p, out); break;
  }
}

void generate(Program &prog, dsim::Config &cfg, dsim::Rng &pr, dsim::Rng &cr, int, int)
{
  const int cls = static_cast<int>(pr.below(2));
  const int ty = static_cast<int>(pr.below(4));
  int64_t span;
  switch (pr.below(6)) {
    case 0: span = 0; break;
    case 1: span = 1 + static_cast<int64_t>(pr.below(8)); break;
    case 2: span = 98 + static_cast<int64_t>(pr.below(4)); break;  // both sides of the 100-bin exact/approximate switch
    case 3: span = 1 + static_cast<int64_t>(pr.below(400)); break;
    case 4: span = cls == 1 ? 1000 + static_cast<int64_t>(pr.below(1000000)) : 200 + static_cast<int64_t>(pr.below(3000)); break;
    default: span = 10 + static_cast<int64_t>(pr.below(90)); break;
  }
  int64_t mn;
  const bool is_signed = ty >= 2;
  switch (pr.below(4)) {
    case 0: mn = 0; break;
    case 1: mn = is_signed ? -static_cast<int64_t>(pr.below(1000)) : static_cast<int64_t>(pr.below(1000)); break;
    case 2: mn = is_signed ? -span / 2 : 1; break;
    default: mn = static_cast<int64_t>(pr.below(100000)); break;
  }
  static const int kAlpha[] = {0, 500, 990, 1000, 1010, 1500, 2000, 3000};
  const int64_t alpha = pr.chance(1, 3) ? static_cast<int64_t>(pr.below(3001)) : kAlpha[pr.below(8)];
  prog.params = {cls, ty, mn, mn + span, alpha};
  const int K = 2 + static_cast<int>(pr.below(3));
  prog.threads.clear();
  for (int t = 0; t < K; ++t) {
    Op o;
    o.a = static_cast<int64_t>(pr.chance(1, 4) ? 42 : pr.below(1u << 30));  // sometimes all threads use equal engine seeds
    o.b = 2 + static_cast<int64_t>(pr.below(10));
    prog.threads.push_back({o});
  }
  cfg.plain_sched = true;
  const uint64_t s = cr.below(100);
  if (s < 45) cfg.strategy = dsim::kRandom;
  else if (s < 75) cfg.strategy = dsim::kSticky;
  else cfg.strategy = dsim::kPCT;
  cfg.sticky_percent = 30 + static_cast<int>(cr.below(65));
  cfg.pct_depth = 1 + static_cast<int>(cr.below(3));
  cfg.pct_len = 400;
  cfg.spin_bound = 1000000;
  cfg.max_steps = 400000;
}

std::string render(const Program &p)
{
  static const char *ty[] = {"uint32_t", "uint64_t", "int32_t", "int64_t"};
  std::string s = std::string(p.params[0] == 0 ? "ZipfDistribution<" : "ApproxZipfDistribution<") + ty[p.params[1] & 3] + ">(" + std::to_string(p.params[2]) +
                  ", " + std::to_string(p.params[3]) + ", alpha=" + std::to_string(static_cast<double>(p.params[4]) / 1000.0) + ") shared by " +
                  std::to_string(p.threads.size()) + " threads\n";
  for (size_t t = 0; t < p.threads.size(); ++t)
    s += "  T" + std::to_string(t + 1) + ": mt19937_64(" + std::to_string(p.threads[t][0].a) + "), " + std::to_string(p.threads[t][0].b) + " samples\n";
  return s;
}

std::string tags_for_runtime_class(const Program &, const char *cls)
{
  const std::string c = cls;
  if (c.rfind("crash/", 0) == 0 || c.rfind("heap/", 0) == 0) return "[C19]";
  return "[inconclusive]";
}

void process_init()
{
  const char *e = getenv("VERIF_PROP");
  g_prop = e ? std::string("[") + e + "]" : "";
}
}  // namespace

const Scenario kZipfScenario = {"zipf", generate, entry, render, tags_for_runtime_class, kProbeNames, process_init, reference};

}  // namespace sim
