// placeholder, replaced below
#include "common.hpp"
namespace sim {
namespace {
void generate(Program &, dsim::Config &, dsim::Rng &, dsim::Rng &, int, int) {}
void entry(void *) {}
std::string render(const Program &) { return ""; }
std::string tags(const Program &, const char *) { return ""; }
const char *const kNames[] = {nullptr};
}
const Scenario kIdmScenario = {"idm", generate, entry, render, tags, kNames, nullptr};
}
extern "C" size_t cpp_utility_verif_thread_hash() { return 0; }
