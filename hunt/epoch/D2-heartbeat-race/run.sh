#!/bin/bash
# exits non-zero iff the violation shows:
#   (1) ASan heap-use-after-free in the coordinator (forced interleaving, no library instrumentation)
#   (2) TSan data race on TLSEpoch::heartbeat (hook-free stress test)
set -u
HERE="$(cd "$(dirname "$0")" && pwd)"
ROOT="$(cd "$HERE/../.." && pwd)"
B="${ROOT}-build-D2"
rm -rf "$B"; mkdir -p "$B"
FLAGS="-std=c++20 -O1 -g -fno-omit-frame-pointer -I$ROOT/include -DDBGROUP_MAX_THREAD_NUM=16 -DCPP_UTILITY_SPINLOCK_RETRY_NUM=10 -DCPP_UTILITY_BACKOFF_TIME=10 -DCPP_UTILITY_HAS_SPINLOCK_HINT"
SRCS="$ROOT/src/thread/epoch_manager.cpp $ROOT/src/thread/epoch_guard.cpp $ROOT/src/thread/id_manager.cpp $ROOT/src/thread/component/epoch.cpp"
rc=0

echo "--- (1) forced interleaving, AddressSanitizer ---"
g++ $FLAGS -fsanitize=address "$HERE/demo_forced.cpp" $SRCS -o "$B/forced_asan" -lpthread || exit 99
timeout 120 "$B/forced_asan" > "$B/asan.log" 2>&1; r=$?
head -45 "$B/asan.log"; echo "exit code: $r"
if grep -q 'heap-use-after-free' "$B/asan.log" && grep -q 'CollectProtectedEpochs' "$B/asan.log"; then rc=1; fi

echo "--- (2) stress test, ThreadSanitizer ---"
g++ $FLAGS -fsanitize=thread "$HERE/demo_tsan.cpp" $SRCS -o "$B/stress_tsan" -lpthread || exit 99
TSAN_OPTIONS="halt_on_error=0 report_signal_unsafe=0" timeout 600 "$B/stress_tsan" > "$B/tsan.log" 2>&1; r=$?
grep -A14 'WARNING: ThreadSanitizer: data race' "$B/tsan.log" | head -60
echo "exit code: $r; number of TSan reports: $(grep -c 'WARNING: ThreadSanitizer' "$B/tsan.log")"
if grep -q 'CollectProtectedEpochs' "$B/tsan.log" && grep -q 'CreateEpochGuard' "$B/tsan.log"; then rc=1; fi

rm -rf "$B"
exit $rc
