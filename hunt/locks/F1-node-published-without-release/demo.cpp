// F1: MCSLock publishes a freshly created/initialised queue node with an
// acquire-only RMW on the lock word.  The successor that picks the node
// pointer up from the lock word and RMWs the node (link step) is therefore NOT
// ordered after the node's construction / initialisation.
//
// Scenario (2 threads, 1 lock, unmodified library, built with -fsanitize=thread):
//   A: LockX()  -> new MCSLock{} (plain init of lock_), store(kXLock,relaxed),
//                  lock_.exchange(nodeA|X, ACQUIRE)            <- no release
//   B: LockX()  -> lock_.exchange(nodeB|X, ACQUIRE) returns nodeA,
//                  nodeA->lock_.fetch_add(nodeB, release)      <- races with A's init
// All harness-level coordination uses RELAXED atomics only, so the harness
// adds no happens-before edge of its own.
#include <atomic>
#include <chrono>
#include <cstdio>
#include <thread>

#include "dbgroup/lock/mcs_lock.hpp"

using dbgroup::lock::MCSLock;

static MCSLock lock_obj;
static std::atomic<int> b_started{0}, a_locked{0};
static long shared_data = 0;

int
main()
{
  std::thread a([] {
    while (b_started.load(std::memory_order_relaxed) == 0) {
    }  // make sure B's thread exists before A allocates its node
    auto x = lock_obj.LockX();
    ++shared_data;
    a_locked.store(1, std::memory_order_relaxed);
    std::this_thread::sleep_for(std::chrono::milliseconds(300));  // B queues behind A meanwhile
  });
  std::thread b([] {
    b_started.store(1, std::memory_order_relaxed);
    while (a_locked.load(std::memory_order_relaxed) == 0) {
    }
    auto x = lock_obj.LockX();  // links itself into A's node
    ++shared_data;
  });
  a.join();
  b.join();
  std::printf("done, data=%ld\n", shared_data);
  return 0;
}
