// C06 / C18: ApproxZipfDistribution with near-limit bounds.  The bin count n = max - min + 1 and several
// loop variables are computed in IntType and overflow when the requested range is (almost) as wide as the
// type or, for signed types, wider than the positive half.
#include <cmath>
#include <cstdint>
#include <cstdio>
#include <cstdlib>
#include <limits>
#include <map>
#include <random>

#include "dbgroup/random/zipf.hpp"

using dbgroup::random::ApproxZipfDistribution;

template <class T>
static auto
Sample(const char *type, const T min, const T max, const double alpha) -> bool
{
  const ApproxZipfDistribution<T> d{min, max, alpha};
  std::mt19937_64 g{42};
  std::map<long long, size_t> hist;
  bool out_of_range = false;
  constexpr size_t kSamples = 100000;
  for (size_t i = 0; i < kSamples; ++i) {
    const auto v = d(g);
    if (v < min || v > max) out_of_range = true;
    ++hist[static_cast<long long>(v)];
  }
  // exact probability of the most likely value (min) is 1/H(n) < 0.06 for all ranges used here
  const auto top = hist.begin()->second;
  std::printf("%s [%lld, %lld] alpha=%g: %zu samples -> %zu distinct value(s); first: %lld (x%zu); GetCDF(0)=%g GetCDF(99)=%g GetCDF(100)=%g%s\n",
              type, (long long)min, (long long)max, alpha, kSamples, hist.size(), hist.begin()->first, top, d.GetCDF(0),
              d.GetCDF(99), d.GetCDF(100), out_of_range ? " OUT OF RANGE" : "");
  const bool degenerate = hist.size() == 1;  // a Zipf(1.0) sample of 100000 draws over > 2^31 bins has thousands of values
  const bool cdf_broken = !(d.GetCDF(100) > 0.0 && d.GetCDF(100) < 1.0) || !(d.GetCDF(0) < 0.5);
  return degenerate || cdf_broken || out_of_range;
}

int
main(int argc, char **argv)
{
  const int mode = argc > 1 ? std::atoi(argv[1]) : 0;
  using I32 = std::numeric_limits<int32_t>;
  using U32 = std::numeric_limits<uint32_t>;
  bool bad = false;
  if (mode == 0) {
    std::printf("control:\n");
    bad |= Sample<int32_t>("int32_t ", -1000000000, 1000000000, 1.0);   // n = 2000000001 fits: works (takes ~1 s)
    if (bad) std::printf("unexpected: control failed\n");
    bad = false;
    std::printf("signed range wider than 2^31-1 (n does not fit into IntType):\n");
    bad |= Sample<int32_t>("int32_t ", -1500000000, 1500000000, 1.0);
    bad |= Sample<int32_t>("int32_t ", 0, I32::max(), 1.0);
    bad |= Sample<int32_t>("int32_t ", I32::min(), I32::max(), 1.0);
    std::printf("full unsigned range (n wraps to 0):\n");
    bad |= Sample<uint32_t>("uint32_t", 0, U32::max(), 1.0);
    bad |= Sample<uint32_t>("uint32_t", 0, U32::max(), 0.0);
    bad |= Sample<uint64_t>("uint64_t", 0, std::numeric_limits<uint64_t>::max(), 1.0);
    std::printf("n = 2^32 - 1 (n + 1 wraps to 0: the tail of the normalisation is skipped):\n");
    bad |= Sample<uint32_t>("uint32_t", 0, U32::max() - 1, 1.0);
    bad |= Sample<uint32_t>("uint32_t", 1, U32::max(), 1.0);
    return bad ? 1 : 0;
  }
  if (mode == 1) {
    // n = 2^32 - 2: the constructor never returns.  `i` runs 101, 201, ... in uint32_t arithmetic; the loop
    // `while (i < n_ + 1)` ends only if i hits 4294967295 exactly, but i == 1 (mod 4) always while
    // 4294967295 == 3 (mod 4) (the step 100 and the wrap 2^32 are both multiples of 4).
    std::printf("constructing ApproxZipfDistribution<uint32_t>{0, 4294967293, 1.0} ...\n");
    std::fflush(stdout);
    const ApproxZipfDistribution<uint32_t> d{0, U32::max() - 2, 1.0};
    std::printf("constructed, GetCDF(0)=%g\n", d.GetCDF(0));
    return 0;
  }
  return 0;
}
