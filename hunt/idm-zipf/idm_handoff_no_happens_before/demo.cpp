// C15 (and C04 through EpochManager): giving an ID from an exited thread to a new thread
// creates no happens-before edge, because both the release of the ID (store, relaxed) and
// the claim (load/exchange, relaxed) are relaxed.  The new owner of an ID is therefore not
// guaranteed to see what the previous owner did, in particular
//  (1) the expiry of the previous owner's heartbeat (C15: "by the time another thread is
//      given the same ID, every heartbeat handed out to earlier owners is already expired"),
//  (2) the previous owner's last writes to the per-ID slot EpochManager::tls_fields_[id]
//      (plain std::weak_ptr), which the new owner reads in CreateEpochGuard.
// ThreadSanitizer derives happens-before from the memory_order arguments actually written
// in the source, so it reports (2) as a data race.  Capacity is 1 so that thread B can only
// ever receive the ID that thread A gives back.
#include <atomic>
#include <chrono>
#include <cstdio>
#include <thread>

#include "dbgroup/thread/epoch_manager.hpp"
#include "dbgroup/thread/id_manager.hpp"

using dbgroup::thread::EpochManager;
using dbgroup::thread::IDManager;

static std::atomic_int stage{0};  // only relaxed accesses: adds no synchronisation itself
static size_t per_id_slot[dbgroup::thread::kMaxThreadNum] = {};  // user data indexed by thread ID

int
main()
{
  EpochManager em{};

  std::thread a{[&] {
    const auto id = IDManager::GetThreadID();
    per_id_slot[id] = 1;                    // plain write to "my" slot
    { auto g = em.CreateEpochGuard(); }     // writes tls_fields_[id].heartbeat (plain weak_ptr)
    stage.store(1, std::memory_order_relaxed);
    while (stage.load(std::memory_order_relaxed) < 2) std::this_thread::yield();
    // exit: ~HeartBeater: id_.reset(); _id_vec[id].store(false, relaxed)
  }};

  std::thread b{[&] {
    while (stage.load(std::memory_order_relaxed) < 1) std::this_thread::yield();
    stage.store(2, std::memory_order_relaxed);
    const auto id = IDManager::GetThreadID();  // spins until A has exited, then takes A's ID
    per_id_slot[id] = 2;                       // plain write to "my" slot: races with A's write
    { auto g = em.CreateEpochGuard(); }        // reads tls_fields_[id].heartbeat: races with A's write
  }};

  b.join();  // note: A is joined only after B has finished
  a.join();
  std::printf("done\n");
  return 0;
}
