#!/bin/bash
# exits non-zero iff ThreadSanitizer reports the race between DowngradeToSIX's
# RMW on the successor node and the successor's construction of that node.
cd "$(dirname "$0")"
ROOT=${ROOT:-/tmp/mut/H1}
B=${BUILD:-/tmp/mut/H1-build/F2}
mkdir -p "$B"
g++ -std=c++20 -O1 -g -fsanitize=thread -I$ROOT/include \
  -DDBGROUP_MAX_THREAD_NUM=16 -DCPP_UTILITY_SPINLOCK_RETRY_NUM=10 -DCPP_UTILITY_BACKOFF_TIME=10 \
  -DCPP_UTILITY_HAS_SPINLOCK_HINT demo.cpp $ROOT/src/lock/mcs_lock.cpp -o $B/demo -lpthread 2>$B/build.log || { echo "build failed"; cat $B/build.log; exit 2; }
TSAN_OPTIONS="exitcode=0" $B/demo > $B/out.txt 2>&1
if grep -A3 "Atomic write of size 8" $B/out.txt | grep -q "XGuard::DowngradeToSIX() .*mcs_lock.cpp:412"; then
  echo "VIOLATION SHOWN: DowngradeToSIX RMWs the successor's node (mcs_lock.cpp:412) without happens-before from its construction"
  grep -B2 -A12 "XGuard::DowngradeToSIX() .*mcs_lock.cpp:412" $B/out.txt | grep -E "Atomic write|Previous write|#[01] " | head -8
  exit 1
fi
echo "no race reported"; tail -5 $B/out.txt
exit 0
