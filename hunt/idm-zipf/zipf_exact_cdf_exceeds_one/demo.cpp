// C18: the exact CDF must be non-decreasing in k and exactly 1 at the last bin.  The last bin is
// forced to 1.0, but the accumulated value of the bin before can be 1.0000000000000002 or more.
#include <cstdint>
#include <cstdio>

#include "dbgroup/random/zipf.hpp"

using dbgroup::random::ApproxZipfDistribution;
using dbgroup::random::ZipfDistribution;

template <class Dist, class T>
static auto
CountDecreases(const char *name, const T min, const T n, const double alpha, const bool print) -> int
{
  const Dist d{min, static_cast<T>(min + n - 1), alpha};
  int cnt = 0;
  for (T k = 1; k < n; ++k) {
    const auto prev = d.GetCDF(k - 1);
    const auto cur = d.GetCDF(k);
    if (cur < prev) {
      ++cnt;
      if (print) {
        std::printf("%s n=%lld alpha=%g: GetCDF(%lld)=%.17g > GetCDF(%lld)=%.17g  <-- decreasing, and a CDF value above 1\n",
                    name, (long long)n, alpha, (long long)(k - 1), prev, (long long)k, cur);
      }
    }
  }
  return cnt;
}

int
main()
{
  int bad = 0;
  // a few concrete instances
  bad += CountDecreases<ZipfDistribution<uint64_t>, uint64_t>("Zipf<u64>", 0, 4, 26.7, true);
  bad += CountDecreases<ZipfDistribution<int32_t>, int32_t>("Zipf<i32>", -10, 48, 8.95, true);
  bad += CountDecreases<ZipfDistribution<int64_t>, int64_t>("Zipf<i64>", -10, 57, 8.95, true);
  bad += CountDecreases<ZipfDistribution<uint32_t>, uint32_t>("Zipf<u32>", 5, 100, 10.0, true);
  bad += CountDecreases<ApproxZipfDistribution<uint32_t>, uint32_t>("Approx<u32>", 5, 100, 10.0, true);
  // inside the "ordinary" parameter range of C18 (alpha <= 3, n up to a few million)
  bad += CountDecreases<ZipfDistribution<uint64_t>, uint64_t>("Zipf<u64>", 0, 100000, 2.9, true);
  bad += CountDecreases<ZipfDistribution<int64_t>, int64_t>("Zipf<i64>", -7, 300000, 2.8, true);
  bad += CountDecreases<ZipfDistribution<uint32_t>, uint32_t>("Zipf<u32>", 0, 1000000, 2.6, true);
  // how common is it? n = 2..300, alpha = 0, 0.05, ..., 30
  int configs = 0;
  int bad_configs = 0;
  double min_alpha = 1e9;
  for (int64_t n = 2; n <= 300; ++n) {
    for (int ai = 0; ai <= 3000; ai += 5) {
      ++configs;
      if (CountDecreases<ZipfDistribution<int64_t>, int64_t>("", 0, n, ai / 100.0, false) > 0) {
        ++bad_configs;
        if (ai / 100.0 < min_alpha) min_alpha = ai / 100.0;
      }
    }
  }
  std::printf("grid n=2..300 x alpha=0..30 step 0.05: %d of %d configurations have a decreasing exact CDF (smallest alpha: %g)\n",
              bad_configs, configs, min_alpha);
  return (bad + bad_configs) != 0 ? 1 : 0;
}
