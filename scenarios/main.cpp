// Controller: exploration loop, replay, minimisation.  Not instrumented.
#include <errno.h>
#include <fcntl.h>
#include <sys/stat.h>
#include <sys/wait.h>
#include <time.h>
#include <unistd.h>

#include <algorithm>
#include <cinttypes>
#include <cstdlib>
#include <map>
#include <set>
#include <sstream>

#include "common.hpp"

namespace dsim
{
size_t format_tail(char *buf, size_t n);
}

namespace sim
{
// ------------------------------------------------------------------------------------------------
static Program g_prog;
static const Scenario *g_scn = nullptr;
static const char *g_phase = "";
const Program &current_program() { return g_prog; }
void set_phase(const char *p) { g_phase = p; }
const char *phase() { return g_phase; }
static int g_scale = 0;
int scale() { return g_scale; }

const Scenario *find_scenario(const std::string &name)
{
  for (const Scenario *s : {&kLocksScenario, &kIdmScenario, &kEpochScenario, &kZipfScenario, &kLitmusScenario})
    if (name == s->name) return s;
  return nullptr;
}

// ------------------------------------------------------------------------------------------------
struct RunSpec {
  std::string property = "C00";
  std::string variant = "";
  uint64_t seed = 0;  // seed_i
  dsim::Config cfg;
  std::vector<uint8_t> choices;
  bool use_choices = false;
  // filled from a replay file
  int status = 0;
  std::string cls, msg;
  uint64_t trace_hash = 0;
};

static std::string rle(const std::vector<uint8_t> &c)
{
  std::string s;
  char b[32];
  for (size_t i = 0; i < c.size();) {
    size_t j = i;
    while (j < c.size() && c[j] == c[i]) j++;
    snprintf(b, sizeof(b), "%u:%zu ", c[i], j - i);
    s += b;
    i = j;
  }
  return s;
}

static bool write_replay(const std::string &path, const RunSpec &rs, const Program &p, const std::string &tail)
{
  FILE *f = fopen(path.c_str(), "w");
  if (!f) return false;
  fprintf(f, "dsim-replay 1\n");
  fprintf(f, "property %s\nvariant %s\nscenario %s\nfamily %d\nprofile %d\n", rs.property.c_str(), rs.variant.c_str(),
          p.scenario.c_str(), p.family, p.profile);
  fprintf(f, "seed %" PRIu64 "\nstatus %d\ncls %s\nmsg %s\ntrace_hash %" PRIu64 "\n", rs.seed, rs.status, rs.cls.c_str(),
          rs.msg.c_str(), rs.trace_hash);
  const dsim::Config &c = rs.cfg;
  fprintf(f, "cfg %d %d %d %d %d %d %d %d %d %d %" PRIu64 " %d %" PRIu64 " %" PRIu64 " %d %d %d\n", c.strategy, c.pct_depth, c.pct_len,
          c.sticky_percent, c.cas_spurious_permille, c.oversleep_permille, c.eintr_permille, c.stall_permille, c.stall_max,
          c.spin_bound, c.max_steps, c.plain_sched ? 1 : 0, c.sched_seed, c.fault_seed, c.tso ? 1 : 0, c.tso_drain_percent, c.weak_stores ? 1 : 0);
  fprintf(f, "params %zu", p.params.size());
  for (auto v : p.params) fprintf(f, " %" PRId64, v);
  fprintf(f, "\nthreads %zu\n", p.threads.size());
  for (auto &t : p.threads) {
    fprintf(f, "thread %zu:", t.size());
    for (auto &o : t) fprintf(f, " %d %d %" PRId64 " %" PRId64 " %" PRId64 " |", o.kind, o.obj, o.a, o.b, o.c);
    fprintf(f, "\n");
  }
  fprintf(f, "choices %zu: %s\n", rs.choices.size(), rle(rs.choices).c_str());
  fprintf(f, "tail %s\n", tail.c_str());
  if (g_scn) {
    std::istringstream is(g_scn->render(p));
    std::string line;
    while (std::getline(is, line)) fprintf(f, "# %s\n", line.c_str());
  }
  fclose(f);
  return true;
}

static bool read_replay(const std::string &path, RunSpec &rs, Program &p)
{
  FILE *f = fopen(path.c_str(), "r");
  if (!f) return false;
  char *line = nullptr;
  size_t cap = 0;
  ssize_t n;
  bool ok = false;
  while ((n = getline(&line, &cap, f)) > 0) {
    if (line[n - 1] == '\n') line[--n] = 0;
    std::string s(line);
    auto sp = s.find(' ');
    std::string key = s.substr(0, sp), val = sp == std::string::npos ? "" : s.substr(sp + 1);
    if (key == "dsim-replay") ok = true;
    else if (key == "property") rs.property = val;
    else if (key == "variant") rs.variant = val;
    else if (key == "scenario") p.scenario = val;
    else if (key == "family") p.family = atoi(val.c_str());
    else if (key == "profile") p.profile = atoi(val.c_str());
    else if (key == "seed") rs.seed = strtoull(val.c_str(), nullptr, 10);
    else if (key == "status") rs.status = atoi(val.c_str());
    else if (key == "cls") rs.cls = val;
    else if (key == "msg") rs.msg = val;
    else if (key == "trace_hash") rs.trace_hash = strtoull(val.c_str(), nullptr, 10);
    else if (key == "cfg") {
      dsim::Config &c = rs.cfg;
      int ps = 0, tso = 0, weak = 0;
      sscanf(val.c_str(), "%d %d %d %d %d %d %d %d %d %d %" SCNu64 " %d %" SCNu64 " %" SCNu64 " %d %d %d", &c.strategy, &c.pct_depth, &c.pct_len,
             &c.sticky_percent, &c.cas_spurious_permille, &c.oversleep_permille, &c.eintr_permille, &c.stall_permille, &c.stall_max,
             &c.spin_bound, &c.max_steps, &ps, &c.sched_seed, &c.fault_seed, &tso, &c.tso_drain_percent, &weak);
      c.weak_stores = weak != 0;
      c.plain_sched = ps != 0;
      c.tso = tso != 0;
    } else if (key == "params") {
      std::istringstream is(val);
      size_t k;
      is >> k;
      p.params.resize(k);
      for (auto &v : p.params) is >> v;
    } else if (key == "thread") {
      std::istringstream is(val);
      size_t k;
      char colon;
      is >> k >> colon;
      std::vector<Op> t(k);
      for (auto &o : t) {
        char bar;
        is >> o.kind >> o.obj >> o.a >> o.b >> o.c >> bar;
      }
      p.threads.push_back(t);
    } else if (key == "choices") {
      std::istringstream is(val);
      size_t k;
      char colon;
      is >> k >> colon;
      rs.choices.clear();
      unsigned id;
      size_t cnt;
      char c2;
      while (is >> id >> c2 >> cnt)
        for (size_t i = 0; i < cnt; ++i) rs.choices.push_back(static_cast<uint8_t>(id));
      rs.use_choices = true;
    }
  }
  free(line);
  fclose(f);
  return ok;
}

// ------------------------------------------------------------------------------------------------
// abort handling
// ------------------------------------------------------------------------------------------------
enum Mode { kExplore, kChild };
static Mode g_mode = kExplore;
static int g_child_fd = -1;
static RunSpec g_cur;
static std::string g_replay_dir = "/verif/replays";
static uint64_t g_cur_index = 0;

static std::string full_class(const dsim::Result &r)
{
  std::string cls = r.cls;
  if (r.status == dsim::kStepCap && cls == "stepcap" && (g_cur.cfg.strategy == dsim::kRandom || g_cur.cfg.strategy == dsim::kSticky)) {
    // under a fair random schedule every runnable vthread gets a turn every few steps: not finishing a ~150 step program within the
    // step cap is a livelock (threads keep writing, so the deadlock detector does not apply); classified like a deadlock
    std::string tags = g_scn && g_scn->tags_for_runtime_class ? g_scn->tags_for_runtime_class(g_prog, "deadlock") : "";
    return tags + " livelock (step cap reached under a fair random schedule)";
  }
  if (cls.empty() || cls[0] != '[') {
    std::string tags = g_scn && g_scn->tags_for_runtime_class ? g_scn->tags_for_runtime_class(g_prog, r.cls) : "";
    cls = tags + " " + cls;
  }
  return cls;
}

struct ChildReport {
  int status;
  uint64_t trace_hash;
  uint64_t steps;
  uint64_t divergences;
  char cls[128];
  char msg[512];
  size_t nchoices;
};

static void write_all(int fd, const void *p, size_t n)
{
  const char *c = static_cast<const char *>(p);
  while (n > 0) {
    ssize_t w = write(fd, c, n);
    if (w <= 0) {
      if (errno == EINTR) continue;
      return;
    }
    c += w;
    n -= static_cast<size_t>(w);
  }
}

static void child_report(const dsim::Result &r)
{
  ChildReport cr;
  memset(&cr, 0, sizeof(cr));
  cr.status = r.status;
  cr.trace_hash = r.trace_hash;
  cr.steps = r.steps;
  cr.divergences = r.divergences;
  snprintf(cr.cls, sizeof(cr.cls), "%s", full_class(r).c_str());
  snprintf(cr.msg, sizeof(cr.msg), "%s", r.msg);
  cr.nchoices = r.nchoices;
  write_all(g_child_fd, &cr, sizeof(cr));
  write_all(g_child_fd, r.choices, r.nchoices);
}

static FILE *g_hashes_file = nullptr;  // explore: hashes of the runs completed so far must survive the _exit of an aborting run

static void on_abort(const dsim::Result &r)
{
  if (g_hashes_file) fflush(g_hashes_file);
  if (g_mode == kChild) {
    child_report(r);
    _exit(0);
  }
  RunSpec rs = g_cur;
  rs.status = r.status;
  rs.cls = full_class(r);
  rs.msg = r.msg;
  rs.trace_hash = r.trace_hash;
  rs.choices.assign(r.choices, r.choices + r.nchoices);
  char tail[8192];
  dsim::format_tail(tail, sizeof(tail));
  char path[512];
  snprintf(path, sizeof(path), "%s/%s-%s-f%d-%" PRIu64 ".replay", g_replay_dir.c_str(), rs.property.c_str(), g_prog.scenario.c_str(),
           g_prog.family, rs.seed);
  mkdir(g_replay_dir.c_str(), 0777);
  write_replay(path, rs, g_prog, tail);
  printf("RUN-ABORT index=%" PRIu64 " seed=%" PRIu64 " status=%d steps=%" PRIu64 " hash=%" PRIu64 " replay=%s cls=%s\n", g_cur_index, rs.seed,
         r.status, r.steps, r.trace_hash, path, rs.cls.c_str());
  fflush(stdout);
  _exit(3);
}

// ------------------------------------------------------------------------------------------------
static std::vector<int64_t> g_ref;
const std::vector<int64_t> &reference_data() { return g_ref; }

static void write_all(int fd, const void *p, size_t n);
static bool read_all(int fd, void *p, size_t n)
{
  char *c = static_cast<char *>(p);
  while (n > 0) {
    ssize_t k = read(fd, c, n);
    if (k <= 0) {
      if (k < 0 && errno == EINTR) continue;
      return false;
    }
    c += k;
    n -= static_cast<size_t>(k);
  }
  return true;
}

// reference data computed in a cold child of this (pristine) controller process
static bool compute_reference(const Program &p)
{
  g_ref.clear();
  if (!g_scn || !g_scn->reference) return true;
  int fds[2];
  if (pipe(fds) != 0) return false;
  fflush(stdout);
  fflush(stderr);
  pid_t pid = fork();
  if (pid == 0) {
    close(fds[0]);
    std::vector<int64_t> out;
    g_scn->reference(p, out);
    uint64_t n = out.size();
    write_all(fds[1], &n, sizeof(n));
    write_all(fds[1], out.data(), n * sizeof(int64_t));
    _exit(0);
  }
  close(fds[1]);
  uint64_t n = 0;
  bool ok = read_all(fds[0], &n, sizeof(n)) && n < (1u << 24);
  if (ok) {
    g_ref.resize(n);
    ok = read_all(fds[0], g_ref.data(), n * sizeof(int64_t));
  }
  close(fds[0]);
  int st;
  waitpid(pid, &st, 0);
  return ok;
}

static dsim::Result execute(RunSpec &rs)
{
  dsim::Config cfg = rs.cfg;
  if (rs.use_choices) {
    cfg.replay_choices = rs.choices.data();
    cfg.replay_len = rs.choices.size();
  }
  g_phase = "";
  return dsim::run(cfg, g_scn->entry, nullptr);
}

struct EvalOut {
  bool ran = false;
  int status = 0;
  std::string cls, msg;
  uint64_t trace_hash = 0, steps = 0, divergences = 0;
  std::vector<uint8_t> choices;
};

// run one candidate in a forked child (a failing run leaves the process unusable)
static EvalOut eval_in_child(const Program &p, RunSpec rs, bool strict, bool trace = false)
{
  EvalOut out;
  if (!compute_reference(p)) return out;
  int fds[2];
  if (pipe(fds) != 0) return out;
  fflush(stdout);
  fflush(stderr);
  pid_t pid = fork();
  if (pid == 0) {
    close(fds[0]);
    g_mode = kChild;
    g_child_fd = fds[1];
    g_prog = p;
    g_cur = rs;
    rs.cfg.replay_strict = strict;
    rs.cfg.trace = trace;
    dsim::Result r = execute(rs);
    child_report(r);
    _exit(0);
  }
  close(fds[1]);
  ChildReport cr;
  size_t got = 0;
  char *dst = reinterpret_cast<char *>(&cr);
  while (got < sizeof(cr)) {
    ssize_t k = read(fds[0], dst + got, sizeof(cr) - got);
    if (k <= 0) {
      if (k < 0 && errno == EINTR) continue;
      break;
    }
    got += static_cast<size_t>(k);
  }
  if (got == sizeof(cr)) {
    out.ran = true;
    out.status = cr.status;
    out.cls = cr.cls;
    out.msg = cr.msg;
    out.trace_hash = cr.trace_hash;
    out.steps = cr.steps;
    out.divergences = cr.divergences;
    out.choices.resize(cr.nchoices);
    size_t g2 = 0;
    while (g2 < cr.nchoices) {
      ssize_t k = read(fds[0], out.choices.data() + g2, cr.nchoices - g2);
      if (k <= 0) {
        if (k < 0 && errno == EINTR) continue;
        break;
      }
      g2 += static_cast<size_t>(k);
    }
  }
  close(fds[0]);
  int st;
  waitpid(pid, &st, 0);
  return out;
}

// violation class without variable detail: the text up to the first " :: "
static std::string class_key(const std::string &cls)
{
  auto p = cls.find(" :: ");
  return p == std::string::npos ? cls : cls.substr(0, p);
}

// ------------------------------------------------------------------------------------------------
// minimisation (DESIGN 2.9): program (threads, operations), then context switches, then faults
// ------------------------------------------------------------------------------------------------
static std::vector<uint8_t> drop_thread_choices(const std::vector<uint8_t> &c, int vt)
{
  std::vector<uint8_t> o;
  for (auto x : c) {
    const int flag = x & 0x80, id = x & 0x7f;  // 0x80: "drain one store-buffer entry of vthread id" (TSO mode)
    if (id == vt) continue;
    o.push_back(static_cast<uint8_t>(flag | (id > vt ? id - 1 : id)));
  }
  return o;
}

struct Minimiser {
  Program prog;
  RunSpec rs;
  std::string key;
  int evals = 0;

  bool still_fails(const Program &p, RunSpec cand, EvalOut *res)
  {
    // 1. guided replay of the surviving decisions
    evals++;
    EvalOut e = eval_in_child(p, cand, false);
    if (e.ran && e.status != dsim::kOk && e.status != dsim::kStepCap && class_key(e.cls) == key) {
      *res = e;
      return true;
    }
    // 2. fresh schedules
    RunSpec fresh = cand;
    fresh.use_choices = false;
    for (int k = 0; k < 60; ++k) {
      fresh.cfg.sched_seed = dsim::mix64(cand.cfg.sched_seed, 1000 + k);
      fresh.cfg.strategy = k % 3 == 0 ? dsim::kPCT : (k % 3 == 1 ? dsim::kSticky : dsim::kRandom);
      evals++;
      e = eval_in_child(p, fresh, false);
      if (e.ran && e.status != dsim::kOk && e.status != dsim::kStepCap && class_key(e.cls) == key) {
        *res = e;
        return true;
      }
    }
    return false;
  }

  void adopt(const Program &p, const EvalOut &e)
  {
    prog = p;
    rs.choices = e.choices;
    rs.use_choices = true;
    rs.cls = e.cls;
    rs.msg = e.msg;
    rs.status = e.status;
    rs.trace_hash = e.trace_hash;
  }

  void run()
  {
    key = class_key(rs.cls);
    bool changed = true;
    while (changed) {
      changed = false;
      // drop whole threads (worker k runs as vthread k+1)
      for (size_t t = 0; t < prog.threads.size() && prog.threads.size() > 1;) {
        Program p = prog;
        p.threads.erase(p.threads.begin() + static_cast<long>(t));
        RunSpec c = rs;
        c.choices = drop_thread_choices(rs.choices, static_cast<int>(t) + 1);
        EvalOut e;
        if (still_fails(p, c, &e)) {
          adopt(p, e);
          changed = true;
        } else {
          ++t;
        }
      }
      // drop single operations
      for (size_t t = 0; t < prog.threads.size(); ++t) {
        for (size_t i = 0; i < prog.threads[t].size();) {
          Program p = prog;
          p.threads[t].erase(p.threads[t].begin() + static_cast<long>(i));
          EvalOut e;
          if (still_fails(p, rs, &e)) {
            adopt(p, e);
            changed = true;
          } else {
            ++i;
          }
        }
      }
      // simplify operation arguments (fewer yields, no variants)
      for (size_t t = 0; t < prog.threads.size(); ++t) {
        for (size_t i = 0; i < prog.threads[t].size(); ++i) {
          for (int which = 0; which < 3; ++which) {
            Program p = prog;
            int64_t &v = which == 0 ? p.threads[t][i].a : (which == 1 ? p.threads[t][i].b : p.threads[t][i].c);
            if (v == 0) continue;
            v = 0;
            EvalOut e;
            if (still_fails(p, rs, &e)) {
              adopt(p, e);
              changed = true;
            }
          }
        }
      }
    }
    // faults off
    {
      RunSpec c = rs;
      c.cfg.cas_spurious_permille = 0;
      c.cfg.oversleep_permille = 0;
      c.cfg.eintr_permille = 0;
      evals++;
      EvalOut e = eval_in_child(prog, c, false);
      if (e.ran && e.status != dsim::kOk && class_key(e.cls) == key) {
        rs.cfg = c.cfg;
        adopt(prog, e);
      }
    }
    // shortest prefix of the decision list that still leads to the violation when the rest is filled in by the default policy
    // (keep running the current vthread, else the lowest enabled one): removes the spinning tail of deadlock schedules
    {
      size_t lo = 0, hi = rs.choices.size();
      EvalOut best;
      bool have = false;
      while (lo < hi) {
        const size_t mid = (lo + hi) / 2;
        RunSpec c = rs;
        c.choices.resize(mid);
        evals++;
        EvalOut e = eval_in_child(prog, c, false);
        if (e.ran && e.status != dsim::kOk && e.status != dsim::kStepCap && class_key(e.cls) == key) {
          hi = mid;
          best = e;
          have = true;
        } else {
          lo = mid + 1;
        }
      }
      if (have) {
        size_t sw_old = 0, sw_new = 0;
        for (size_t x = 1; x < rs.choices.size(); ++x) sw_old += rs.choices[x] != rs.choices[x - 1];
        for (size_t x = 1; x < best.choices.size(); ++x) sw_new += best.choices[x] != best.choices[x - 1];
        if (sw_new < sw_old) adopt(prog, best);
      }
    }
    // greedy removal of context switches: extend a run of one vthread over the next run
    for (int pass = 0; pass < 3; ++pass) {
      bool any = false;
      size_t i = 0;
      while (i < rs.choices.size()) {
        size_t j = i;
        while (j < rs.choices.size() && rs.choices[j] == rs.choices[i]) j++;
        if (j >= rs.choices.size()) break;
        size_t k = j;
        while (k < rs.choices.size() && rs.choices[k] == rs.choices[j]) k++;
        RunSpec c = rs;
        for (size_t x = j; x < k; ++x) c.choices[x] = rs.choices[i];
        evals++;
        EvalOut e = eval_in_child(prog, c, false);
        if (e.ran && e.status != dsim::kOk && e.status != dsim::kStepCap && class_key(e.cls) == key && e.choices.size() <= rs.choices.size()) {
          size_t sw_old = 0, sw_new = 0;
          for (size_t x = 1; x < rs.choices.size(); ++x) sw_old += rs.choices[x] != rs.choices[x - 1];
          for (size_t x = 1; x < e.choices.size(); ++x) sw_new += e.choices[x] != e.choices[x - 1];
          if (sw_new < sw_old) {
            adopt(prog, e);
            any = true;
            continue;  // same i: the merged run may extend further
          }
        }
        i = j;
        if (evals > 1500) break;
      }
      if (!any || evals > 1500) break;
    }
  }
};

// ------------------------------------------------------------------------------------------------
static uint64_t hash_str(const std::string &s)
{
  uint64_t h = 0xcbf29ce484222325ULL;
  for (char c : s) h = (h ^ static_cast<uint8_t>(c)) * 0x100000001b3ULL;
  return h;
}

static double now_s()
{
  timespec ts;
  clock_gettime(CLOCK_MONOTONIC, &ts);
  return static_cast<double>(ts.tv_sec) + 1e-9 * static_cast<double>(ts.tv_nsec);
}

static std::string json_escape(const std::string &s)
{
  std::string o;
  for (char c : s) {
    if (c == '"' || c == '\\') {
      o += '\\';
      o += c;
    } else if (c == '\n') {
      o += "\\n";
    } else if (static_cast<unsigned char>(c) < 0x20) {
      o += ' ';
    } else {
      o += c;
    }
  }
  return o;
}

static int cmd_explore(std::map<std::string, std::string> &a)
{
  const std::string prop = a["prop"];
  const uint64_t verif_seed = strtoull(a["seed"].c_str(), nullptr, 10);
  const uint64_t from = strtoull(a["from"].c_str(), nullptr, 10);
  const uint64_t to = strtoull(a["to"].c_str(), nullptr, 10);
  const uint64_t stride = a.count("stride") ? strtoull(a["stride"].c_str(), nullptr, 10) : 1;
  const uint64_t offset = a.count("offset") ? strtoull(a["offset"].c_str(), nullptr, 10) : 0;
  const double time_limit = a.count("time-limit") ? atof(a["time-limit"].c_str()) : 1e18;
  const int family = atoi(a["family"].c_str());
  const int profile = atoi(a["profile"].c_str());
  const size_t nsamples = a.count("samples") ? static_cast<size_t>(atoi(a["samples"].c_str())) : 2;
  if (a.count("replay-dir")) g_replay_dir = a["replay-dir"];
  if (a.count("scale")) g_scale = atoi(a["scale"].c_str());
  g_scn = find_scenario(a["scenario"]);
  if (!g_scn) {
    fprintf(stderr, "unknown scenario\n");
    return 2;
  }
  setenv("VERIF_PROP", prop.c_str(), 1);
  if (g_scn->process_init) g_scn->process_init();
  const uint64_t base = dsim::mix64(dsim::mix64(verif_seed, hash_str(prop)), hash_str(a["scenario"]) + static_cast<uint64_t>(family) * 7919 +
                                                                                static_cast<uint64_t>(profile) * 104729);
  FILE *hf = a.count("hashes") ? fopen(a["hashes"].c_str(), "ab") : nullptr;
  g_hashes_file = hf;
  FILE *tf = a.count("trace-hashes") ? fopen(a["trace-hashes"].c_str(), "a") : nullptr;  // determinism self-test
  const double t0 = now_s();
  uint64_t evals = 0, steps = 0, switches = 0, sw_api = 0, sim_ns = 0, spin_blocks = 0, graces = 0, uaf_notes = 0, nontrivial = 0;
  uint64_t faults[dsim::kFaultKinds] = {0};
  uint64_t probes[64] = {0};
  uint64_t strat[5] = {0};
  uint64_t last_index = from;
  std::vector<std::string> samples;
  uint64_t idx = from + offset;
  for (; idx < to; idx += stride) {
    if ((evals & 3) == 0 && now_s() - t0 > time_limit) break;
    const uint64_t seed_i = dsim::mix64(base, idx);
    dsim::Rng prog_rng(dsim::mix64(seed_i, 1)), cfg_rng(dsim::mix64(seed_i, 2));
    g_prog = Program{};
    g_prog.scenario = g_scn->name;
    g_prog.family = family;
    g_prog.profile = profile;
    g_cur = RunSpec{};
    g_cur.property = prop;
    g_cur.variant = a["variant"];
    g_cur.seed = seed_i;
    g_cur.cfg.sched_seed = dsim::mix64(seed_i, 3);
    g_cur.cfg.fault_seed = dsim::mix64(seed_i, 4);
    g_scn->generate(g_prog, g_cur.cfg, prog_rng, cfg_rng, family, profile);
    if (a.count("trace")) g_cur.cfg.trace = true;
    g_cur_index = idx;
    dsim::Result r;
    uint64_t run_probes[64];
    if (g_scn->reference != nullptr) {
      // one run per freshly forked child of this pristine process (cold process-global state), reference data from another
      if (!compute_reference(g_prog)) {
        fprintf(stderr, "cannot compute the reference data\n");
        return 2;
      }
      int fds[2];
      if (pipe(fds) != 0) return 2;
      fflush(stdout);
      fflush(stderr);
      pid_t pid = fork();
      if (pid == 0) {
        close(fds[0]);
        dsim::Result cr = execute(g_cur);  // an abnormal end writes the replay file, prints RUN-ABORT and exits with status 3
        cr.choices = nullptr;
        uint64_t pb[64];
        for (int k = 0; k < 64; ++k) pb[k] = dsim::probe_count(k);
        write_all(fds[1], &cr, sizeof(cr));
        write_all(fds[1], pb, sizeof(pb));
        _exit(0);
      }
      close(fds[1]);
      const bool ok = read_all(fds[0], &r, sizeof(r)) && read_all(fds[0], run_probes, sizeof(run_probes));
      close(fds[0]);
      int st = 0;
      waitpid(pid, &st, 0);
      if (!ok) {
        fflush(stdout);
        _exit(WIFEXITED(st) && WEXITSTATUS(st) == 3 ? 3 : 75);
      }
    } else {
      r = execute(g_cur);
      for (int k = 0; k < 64; ++k) run_probes[k] = dsim::probe_count(k);
    }
    evals++;
    last_index = idx;
    steps += r.steps;
    switches += r.switches;
    sw_api += r.switches_in_api;
    sim_ns += r.sim_ns;
    spin_blocks += r.spin_blocks;
    graces += r.grace_phases;
    uaf_notes += r.uaf_notes;
    strat[g_cur.cfg.strategy]++;
    for (int k = 0; k < dsim::kFaultKinds; ++k) faults[k] += r.faults[k];
    for (int k = 0; k < 64; ++k) probes[k] += run_probes[k];
    if (tf) fprintf(tf, "%" PRIu64 " %016" PRIx64 " %016" PRIx64 " %" PRIu64 "\n", idx, g_prog.hash(), r.trace_hash, r.steps);
    const bool nt = (r.max_api_overlap >= 2 && r.switches_in_api >= 1) || r.forced_nontrivial;
    if (nt) {
      nontrivial++;
      if (hf) {
        uint64_t h = dsim::mix64(g_prog.hash(), r.trace_hash);
        fwrite(&h, sizeof(h), 1, hf);
      }
    }
    if (samples.size() < nsamples && nt) {
      char hdr[256];
      snprintf(hdr, sizeof(hdr), "index %" PRIu64 " seed %" PRIu64 " strategy %d steps %" PRIu64 " switches %" PRIu64 " (in API calls %" PRIu64
                                 ") trace_hash %016" PRIx64 "\n",
               idx, seed_i, g_cur.cfg.strategy, r.steps, r.switches, r.switches_in_api, r.trace_hash);
      samples.push_back(std::string(hdr) + g_scn->render(g_prog));
    }
  }
  g_hashes_file = nullptr;
  if (hf) fclose(hf);
  if (tf) fclose(tf);
  const double wall = now_s() - t0;
  printf("SUMMARY {\"evaluations\": %" PRIu64 ", \"nontrivial\": %" PRIu64 ", \"steps\": %" PRIu64 ", \"switches\": %" PRIu64
         ", \"switches_in_api\": %" PRIu64 ", \"sim_ns\": %" PRIu64 ", \"spin_blocks\": %" PRIu64 ", \"grace_phases\": %" PRIu64
         ", \"uaf_notes\": %" PRIu64 ", \"states\": %" PRIu64 ", \"wall_s\": %.3f, \"next_index\": %" PRIu64 ", \"last_index\": %" PRIu64,
         evals, nontrivial, steps, switches, sw_api, sim_ns, spin_blocks, graces, uaf_notes, dsim::distinct_states(), wall, idx, last_index);
  static const char *fn[] = {"preempt", "stall", "cas_spurious", "oversleep", "eintr", "thread_exit", "thread_restart", "plain_preempt", "store_buffered"};
  printf(", \"faults\": {");
  for (int k = 0; k < dsim::kFaultKinds; ++k) printf("%s\"%s\": %" PRIu64, k ? ", " : "", fn[k], faults[k]);
  printf("}, \"strategies\": {\"random\": %" PRIu64 ", \"sticky\": %" PRIu64 ", \"pct\": %" PRIu64 ", \"stall\": %" PRIu64 ", \"sequential\": %" PRIu64 "}",
         strat[0], strat[1], strat[2], strat[3], strat[4]);
  printf(", \"probes\": {");
  bool first = true;
  for (int k = 0; g_scn->probe_names && g_scn->probe_names[k]; ++k) {
    printf("%s\"%s\": %" PRIu64, first ? "" : ", ", g_scn->probe_names[k], probes[k]);
    first = false;
  }
  printf("}, \"samples\": [");
  for (size_t i = 0; i < samples.size(); ++i) printf("%s\"%s\"", i ? ", " : "", json_escape(samples[i]).c_str());
  printf("]}\n");
  fflush(stdout);
  return 0;
}

static void print_eval(const char *what, const EvalOut &e)
{
  printf("%s: ran=%d status=%d hash=%" PRIu64 " steps=%" PRIu64 " divergences=%" PRIu64 " cls=%s\n", what, e.ran ? 1 : 0, e.status,
         e.trace_hash, e.steps, e.divergences, e.cls.c_str());
}

// replay FILE: strict re-execution in a fresh child; exit 1 + VIOLATION line if it reproduces
static int cmd_replay(const std::string &path, bool trace)
{
  RunSpec rs;
  Program p;
  if (!read_replay(path, rs, p)) {
    fprintf(stderr, "cannot read replay file %s\n", path.c_str());
    return 2;
  }
  g_scn = find_scenario(p.scenario);
  if (!g_scn) return 2;
  setenv("VERIF_PROP", rs.property.c_str(), 1);
  if (g_scn->process_init) g_scn->process_init();
  g_prog = p;
  EvalOut e = eval_in_child(p, rs, true, trace);
  print_eval("replay", e);
  printf("recorded: status=%d hash=%" PRIu64 " cls=%s\n", rs.status, rs.trace_hash, rs.cls.c_str());
  printf("%s", g_scn->render(p).c_str());
  if (!e.ran) return 2;
  if (e.status == rs.status && class_key(e.cls) == class_key(rs.cls) && e.trace_hash == rs.trace_hash) {
    printf("msg: %s\n", e.msg.c_str());
    if (e.status == dsim::kOk) return 0;
    printf("REPRODUCED property=%s class=%s\n", rs.property.c_str(), e.cls.c_str());
    printf("VIOLATION property=%s replay=%s\n", rs.property.c_str(), path.c_str());
    return 1;
  }
  printf("NOT-REPRODUCED\n");
  return e.status == dsim::kOk ? 0 : 2;
}

static int cmd_minimise(const std::string &path, const std::string &out)
{
  Minimiser m;
  if (!read_replay(path, m.rs, m.prog)) return 2;
  g_scn = find_scenario(m.prog.scenario);
  if (!g_scn) return 2;
  setenv("VERIF_PROP", m.rs.property.c_str(), 1);
  if (g_scn->process_init) g_scn->process_init();
  // gate: the recorded run must reproduce twice with identical hash
  for (int k = 0; k < 2; ++k) {
    EvalOut e = eval_in_child(m.prog, m.rs, true);
    if (!e.ran || e.status != m.rs.status || e.trace_hash != m.rs.trace_hash || class_key(e.cls) != class_key(m.rs.cls)) {
      print_eval("gate", e);
      printf("GATE-FAILED\n");
      return 2;
    }
  }
  const size_t ops0 = m.prog.total_ops(), ch0 = m.rs.choices.size();
  m.run();
  // the minimised run must itself be strictly reproducible
  EvalOut e = eval_in_child(m.prog, m.rs, true);
  if (!e.ran || e.status == dsim::kOk || class_key(e.cls) != m.key) {
    print_eval("final", e);
    printf("MINIMISE-FAILED\n");
    return 2;
  }
  m.rs.trace_hash = e.trace_hash;
  m.rs.status = e.status;
  m.rs.cls = e.cls;
  m.rs.msg = e.msg;
  g_prog = m.prog;
  write_replay(out, m.rs, m.prog, "(minimised; run `replay --trace` for the step list)");
  size_t sw = 0;
  for (size_t x = 1; x < m.rs.choices.size(); ++x) sw += m.rs.choices[x] != m.rs.choices[x - 1];
  printf("MINIMISED ops %zu -> %zu, decisions %zu -> %zu, context switches %zu, threads %zu, evaluations %d, out=%s\n", ops0,
         m.prog.total_ops(), ch0, m.rs.choices.size(), sw, m.prog.threads.size(), m.evals, out.c_str());
  return 0;
}

}  // namespace sim

int main(int argc, char **argv)
{
  if (argc < 2) {
    fprintf(stderr, "usage: sim explore --scenario S --family F --profile P --prop C --seed N --from A --to B ... | replay FILE [--trace] | minimise FILE OUT\n");
    return 2;
  }
  setvbuf(stdout, nullptr, _IOLBF, 0);
  std::string cmd = argv[1];
  std::map<std::string, std::string> a;
  std::vector<std::string> pos;
  for (int i = 2; i < argc; ++i) {
    std::string s = argv[i];
    if (s.rfind("--", 0) == 0) {
      if (i + 1 < argc && std::string(argv[i + 1]).rfind("--", 0) != 0) {
        a[s.substr(2)] = argv[i + 1];
        ++i;
      } else {
        a[s.substr(2)] = "1";
      }
    } else {
      pos.push_back(s);
    }
  }
  dsim::init();
  if (a.count("cpu")) dsim::pin_to_cpu(atoi(a["cpu"].c_str()));
  dsim::set_abort_callback(sim::on_abort);
  if (cmd == "explore") return sim::cmd_explore(a);
  if (cmd == "replay" && !pos.empty()) return sim::cmd_replay(pos[0], a.count("trace") > 0);
  if (cmd == "minimise" && pos.size() >= 2) return sim::cmd_minimise(pos[0], pos[1]);
  fprintf(stderr, "bad command\n");
  return 2;
}
