#include <algorithm>
#include <atomic>
#include <condition_variable>
#include <cstdio>
#include <cstdlib>
#include <functional>
#include <memory>
#include <mutex>
#include <new>
#include <optional>
#include <random>
#include <set>
#include <thread>
#include <vector>

#include "dbgroup/thread/epoch_manager.hpp"
using namespace dbgroup::thread;

std::atomic<long> live_nodes{0};
void *operator new(std::size_t size, std::align_val_t al) {
  auto a = static_cast<size_t>(al);
  void *p = std::aligned_alloc(a, (size + a - 1) / a * a);
  if (!p) throw std::bad_alloc{};
  ++live_nodes;
  return p;
}
void operator delete(void *p, std::align_val_t) noexcept { --live_nodes; std::free(p); }
void operator delete(void *p, std::size_t, std::align_val_t) noexcept { --live_nodes; std::free(p); }

struct Worker {
  std::thread th;
  std::mutex m;
  std::condition_variable cv;
  std::function<void()> job;
  bool has_job = false, done = false, quit = false;
  void Start() {
    quit = false;
    th = std::thread([this] {
      std::unique_lock lk{m};
      while (true) {
        cv.wait(lk, [&] { return has_job || quit; });
        if (quit) return;
        job();
        has_job = false; done = true;
        cv.notify_all();
      }
    });
  }
  void Run(std::function<void()> f) {
    std::unique_lock lk{m};
    job = std::move(f); has_job = true; done = false;
    cv.notify_all();
    cv.wait(lk, [&] { return done; });
  }
  void Stop() { { std::lock_guard lk{m}; quit = true; } cv.notify_all(); th.join(); }
};

int fails = 0;
#define CHECK(c, ...) do { if (!(c)) { ++fails; std::printf("FAIL line %d: ", __LINE__); std::printf(__VA_ARGS__); std::printf("\n"); if (fails > 20) std::exit(1);} } while (0)

int main(int argc, char **argv) {
  setvbuf(stdout, nullptr, _IONBF, 0);
  const unsigned seed = argc > 1 ? std::atoi(argv[1]) : 1;
  const int steps = argc > 2 ? std::atoi(argv[2]) : 3000;
  std::mt19937 rng{seed};
  constexpr size_t kW = kMaxThreadNum - 1;  // last one is the "reader" helper? no: reader uses one of them
  {
    auto mgr = std::make_unique<EpochManager>();
    std::vector<std::unique_ptr<Worker>> ws;
    for (size_t i = 0; i < kW; ++i) { ws.emplace_back(new Worker); ws.back()->Start(); }
    std::vector<std::optional<EpochGuard>> guards(kW);
    std::vector<size_t> pinned(kW, 0);
    std::vector<const std::vector<size_t> *> lists(kW, nullptr);
    std::vector<std::vector<size_t>> list_copies(kW);
    size_t cur = EpochManager::kInitialEpoch;
    CHECK(mgr->GetCurrentEpoch() == cur, "init");
    CHECK(mgr->GetMinEpoch() == cur, "init min");
    size_t total_forwards = 0;

    auto check_lists_stable = [&] {
      for (size_t i = 0; i < kW; ++i) if (lists[i]) CHECK(*lists[i] == list_copies[i], "list of worker %zu changed", i);
    };
    auto forward = [&] {
      const auto prev = cur;
      mgr->ForwardGlobalEpoch(); ++cur; ++total_forwards;
      CHECK(mgr->GetCurrentEpoch() == cur, "cur %zu vs %zu", mgr->GetCurrentEpoch(), cur);
      std::set<size_t, std::greater<size_t>> model{cur, prev};
      std::set<size_t> ranges{cur & ~255UL, prev & ~255UL, 256};
      for (size_t i = 0; i < kW; ++i) if (guards[i]) { model.insert(pinned[i]); ranges.insert(pinned[i] & ~255UL); }
      CHECK(mgr->GetMinEpoch() == *model.rbegin(), "min %zu vs %zu", mgr->GetMinEpoch(), *model.rbegin());
      CHECK(static_cast<size_t>(live_nodes.load()) - 1 == ranges.size(), "nodes %ld vs %zu at epoch %zu", live_nodes.load(), ranges.size(), cur);
      // read the published list with a free worker
      for (size_t i = 0; i < kW; ++i) if (!guards[i]) {
        std::vector<size_t> got; size_t ge = 0;
        ws[i]->Run([&] { const auto &[g, l] = mgr->GetProtectedEpochs(); got = l; ge = g.GetProtectedEpoch(); });
        std::vector<size_t> exp(model.begin(), model.end());
        CHECK(ge == cur, "reader guard epoch");
        CHECK(got == exp, "list mismatch at epoch %zu (got size %zu, exp size %zu)", cur, got.size(), exp.size());
        break;
      }
      check_lists_stable();
    };

    for (int s = 0; s < steps; ++s) {
      const auto op = rng() % 100;
      const auto i = rng() % kW;
      if (op < 30) {
        if (!guards[i]) {
          if (rng() % 2) {
            ws[i]->Run([&] { guards[i].emplace(mgr->CreateEpochGuard()); });
            lists[i] = nullptr;
          } else {
            ws[i]->Run([&] { auto &&[g, l] = mgr->GetProtectedEpochs(); lists[i] = &l; guards[i].emplace(std::move(g)); });
            list_copies[i] = *lists[i];
            const auto &l = *lists[i];
            CHECK(!l.empty() && l.front() == cur, "list front");
            for (size_t k = 0; k + 1 < l.size(); ++k) CHECK(l[k] > l[k + 1], "descending");
            if (cur > 256) CHECK(std::find(l.begin(), l.end(), cur - 1) != l.end(), "contains prev");
          }
          pinned[i] = cur;
          CHECK(guards[i]->GetProtectedEpoch() == cur, "guard epoch");
        }
      } else if (op < 55) {
        if (guards[i]) { ws[i]->Run([&] { guards[i].reset(); }); lists[i] = nullptr; }
      } else if (op < 60) {
        if (!guards[i]) { ws[i]->Stop(); ws[i]->Start(); }
      } else if (op < 95) {
        const auto n = 1 + rng() % 5;
        for (size_t k = 0; k < n; ++k) forward();
      } else {
        const auto n = 200 + rng() % 700;
        for (size_t k = 0; k < n; ++k) forward();
      }
    }
    // drop all guards
    for (size_t i = 0; i < kW; ++i) if (guards[i]) { ws[i]->Run([&] { guards[i].reset(); }); lists[i] = nullptr; }
    forward();
    for (auto &w : ws) w->Stop();
    std::printf("seed %u: %zu forwards, final epoch %zu, live nodes before destruction %ld\n", seed, total_forwards, cur, live_nodes.load());
    mgr.reset();
    CHECK(live_nodes.load() == 0, "leak: %ld nodes", live_nodes.load());
  }
  std::printf("fails: %d\n", fails);
  return fails ? 1 : 0;
}
