#!/bin/sh
# exits non-zero iff the violation shows
set -e
HERE=$(cd "$(dirname "$0")" && pwd)
ROOT=$(cd "$HERE/../.." && pwd)
B=${BUILD_DIR:-$(mktemp -d /tmp/mut/H3-build-XXXXXX)}
mkdir -p "$B"
g++ -std=c++20 -O1 -g -I"$ROOT/include" -DDBGROUP_MAX_THREAD_NUM=16 -DCPP_UTILITY_SPINLOCK_RETRY_NUM=10 \
  -DCPP_UTILITY_BACKOFF_TIME=10 -DCPP_UTILITY_HAS_SPINLOCK_HINT "$HERE/demo.cpp" "$ROOT"/src/thread/id_manager.cpp \
  -o "$B/idm_tls_dtor_leak" -lpthread
set +e
"$B/idm_tls_dtor_leak"
rc=$?
[ -z "$BUILD_DIR" ] && rm -rf "$B"
exit $rc
