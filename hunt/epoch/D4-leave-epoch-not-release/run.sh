#!/bin/bash
# exits non-zero iff TSan reports the race between the worker's guarded reads of its
# protected-epoch list and the coordinator freeing that list after the guard was dropped
set -u
HERE="$(cd "$(dirname "$0")" && pwd)"
ROOT="$(cd "$HERE/../.." && pwd)"
B="${ROOT}-build-D4"
rm -rf "$B"; mkdir -p "$B"
g++ -std=c++20 -O1 -g -fno-omit-frame-pointer -fsanitize=thread -I$ROOT/include -DDBGROUP_MAX_THREAD_NUM=16 -DCPP_UTILITY_SPINLOCK_RETRY_NUM=10 -DCPP_UTILITY_BACKOFF_TIME=10 -DCPP_UTILITY_HAS_SPINLOCK_HINT \
    "$HERE/demo.cpp" $ROOT/src/thread/*.cpp $ROOT/src/thread/component/*.cpp -o "$B/demo" -lpthread 2>/dev/null || exit 99
TSAN_OPTIONS="halt_on_error=0 history_size=7" timeout 300 "$B/demo" > "$B/tsan.log" 2>&1
echo "demo exit code: $?"
grep -v '^    #[4-9]\|^    #1[0-9]' "$B/tsan.log" | head -80
rc=0
# a report whose two accesses are: free() below RemoveOutDatedLists  /  read in ReadListUnderGuard
if awk 'BEGIN{RS="=================="} /RemoveOutDatedLists/ && /ReadListUnderGuard/ {found=1} END{exit found?0:1}' "$B/tsan.log"; then
  echo "VIOLATION: guarded reads of the protected-epoch list race with its reclamation (no happens-before via LeaveEpoch)"
  rc=1
fi
rm -rf "$B"
exit $rc
