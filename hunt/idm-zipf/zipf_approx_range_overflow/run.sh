#!/bin/sh
# exits non-zero iff the violation shows
set -e
HERE=$(cd "$(dirname "$0")" && pwd)
ROOT=$(cd "$HERE/../.." && pwd)
B=${BUILD_DIR:-$(mktemp -d /tmp/mut/H3-build-XXXXXX)}
mkdir -p "$B"
g++ -std=c++20 -O1 -g -I"$ROOT/include" "$HERE/demo.cpp" "$ROOT"/src/random/zipf.cpp -o "$B/zipf_overflow"
set +e
"$B/zipf_overflow" 0
rc0=$?
# the hang: a pass over the uint32_t range takes 1-3 s, so 60 s is many passes
timeout 60 "$B/zipf_overflow" 1
rc1=$?
if [ $rc1 -eq 124 ]; then echo "constructor still running after 60 s: HANG (infinite loop)"; fi
[ -z "$BUILD_DIR" ] && rm -rf "$B"
if [ $rc0 -ne 0 ] || [ $rc1 -ne 0 ]; then exit 1; fi
exit 0
