// C14/C15: an ID claimed from a thread_local destructor that runs after the
// IDManager's own thread_local HeartBeater has been destroyed is never given back.
#include <atomic>
#include <chrono>
#include <cstdio>
#include <cstdlib>
#include <memory>
#include <thread>
#include <vector>

#include "dbgroup/thread/id_manager.hpp"

using dbgroup::thread::IDManager;
using dbgroup::thread::kMaxThreadNum;

static std::vector<std::weak_ptr<size_t>> late_heartbeats(kMaxThreadNum);
static std::vector<size_t> first_ids(kMaxThreadNum), late_ids(kMaxThreadNum);
static thread_local size_t my_index = 0;

// A user-side thread_local object (e.g. a per-thread cache that is protected by an
// EpochManager) that needs the thread ID when it is torn down.
struct PerThreadCache {
  ~PerThreadCache()
  {
    late_ids[my_index] = IDManager::GetThreadID();          // e.g. via EpochManager::CreateEpochGuard
    late_heartbeats[my_index] = IDManager::GetHeartBeat();
  }
};

static void
Worker(size_t index)
{
  my_index = index;
  thread_local PerThreadCache cache;  // constructed BEFORE the first GetThreadID call ...
  (void)&cache;
  first_ids[index] = IDManager::GetThreadID();  // ... so it is destroyed AFTER the HeartBeater
}

int
main()
{
  // kMaxThreadNum short-lived threads, strictly one after the other: at most ONE thread
  // holds an ID at any time.
  for (size_t i = 0; i < kMaxThreadNum; ++i) {
    std::thread t{Worker, i};
    t.join();
  }

  size_t unexpired = 0;
  for (size_t i = 0; i < kMaxThreadNum; ++i) {
    if (!late_heartbeats[i].expired()) ++unexpired;
  }
  std::printf("threads run (sequentially): %zu, all exited and joined\n", (size_t)kMaxThreadNum);
  std::printf("heartbeats of exited threads that are still NOT expired: %zu\n", unexpired);
  for (size_t i = 0; i < kMaxThreadNum && i < 4; ++i) {
    std::printf("  thread %zu: id during life = %zu, id handed out during exit = %zu\n", i, first_ids[i], late_ids[i]);
  }

  // now no thread holds an ID; a fresh thread must get one immediately (C14)
  std::atomic_bool got{false};
  std::thread fresh{[&] {
    (void)IDManager::GetThreadID();
    got.store(true);
  }};
  for (int i = 0; i < 100 && !got.load(); ++i) std::this_thread::sleep_for(std::chrono::milliseconds(100));
  if (!got.load()) {
    std::printf("VIOLATION (C14): no thread is alive, but GetThreadID() of a fresh thread has been spinning for 10 s: all %zu IDs are lost\n", (size_t)kMaxThreadNum);
    std::fflush(stdout);
    std::_Exit(1);
  }
  fresh.join();
  if (unexpired != 0) {
    std::printf("VIOLATION (C15): heartbeats of exited threads are not expired\n");
    return 1;
  }
  std::printf("no violation\n");
  return 0;
}
